#!/usr/bin/env bash
# confirm_mut.sh <src-dir with MUT_X.diff/demo_X.rs/MUT_X.md> <X> <seeded-id> <property>
# Confirms in a scratch worktree that: patch applies, suite passes with it, demo fails with it and passes without.
set -u
SRC=$1; X=$2; ID=$3; PROP=$4
WT=/tmp/mv.$ID
git -C /repo worktree remove --force $WT 2>/dev/null; rm -rf $WT
git -C /repo worktree add -q --detach $WT HEAD || exit 3
cd $WT
cp $SRC/demo_$X.rs tests/demo_$X.rs
export CARGO_NET_OFFLINE=true
# shared target dir to save build time/disk
export CARGO_TARGET_DIR=/tmp/mv.target
r_clean=$(cargo test --offline --test demo_$X 2>&1 | grep -E "^test result" | tail -1)
git apply $SRC/MUT_$X.diff || { echo "PATCH DOES NOT APPLY"; exit 4; }
r_mut=$(cargo test --offline --test demo_$X 2>&1 | grep -E "^test result" | tail -1)
rm tests/demo_$X.rs
r_suite=$(cargo test --workspace --no-fail-fast --offline 2>&1 | grep -E "^test result" | tr '\n' ' ')
cd /; git -C /repo worktree remove --force $WT
echo "demo clean : $r_clean"
echo "demo mut   : $r_mut"
echo "suite mut  : $r_suite"
ok=1
echo "$r_clean" | grep -q "ok\." || ok=0
echo "$r_mut" | grep -q "FAILED" || ok=0
echo "$r_suite" | grep -q "FAILED" && ok=0
echo "$r_suite" | grep -q "142 passed" || ok=0
if [ $ok = 1 ]; then
  mkdir -p /verif/seeded/$ID
  cp $SRC/MUT_$X.diff /verif/seeded/$ID/patch.diff
  cp $SRC/demo_$X.rs /verif/seeded/$ID/demo.rs
  cp $SRC/MUT_$X.md /verif/seeded/$ID/notes.md
  python3 - "$ID" "$PROP" "$r_clean" "$r_mut" "$r_suite" <<'PY'
import json,sys
i,p,a,b,c=sys.argv[1:6]
json.dump({"id":i,"property":p,"confirmed":{"demo_on_clean_tree":a,"demo_with_patch":b,"existing_suite_with_patch":c},
 "what_i_ran":"tools/confirm_mut.sh: scratch worktree of /repo HEAD; cargo test --offline --test demo (clean, then patched); cargo test --workspace --no-fail-fast --offline (patched)",
 "needs":"see notes.md", "detected_by":[]}, open('/verif/seeded/%s/meta.json'%i,'w'), indent=1)
PY
  echo CONFIRMED $ID
else
  echo NOT-CONFIRMED $ID
fi
