#!/usr/bin/env bash
# run_mut.sh <seeded-id> <property> [vcheck args...]
# Runs a check against a seeded change. To keep /repo untouched while other checks run, the patch is applied
# to a scratch copy of /repo's working tree and the check is pointed at it (VERIF_REPO); equivalent to
# `git -C /repo apply patch; vcheck; git -C /repo checkout -- .`
ID=$1; PROP=$2; shift 2
M=/var/tmp/mutrepo.$ID.$PROP
rm -rf $M; mkdir -p $M; rsync -a --exclude target --exclude .git /repo/ $M/
( cd $M && git init -q . && git apply /verif/seeded/$ID/patch.diff ) || { echo "patch failed"; exit 4; }
rm -rf $M/.git
cd /verif && VERIF_REPO=$M VERIF_OUT=/verif/out/mut/$ID timeout 7200 ./bin/vcheck $PROP --no-evidence "$@" > /verif/out/mut.$ID.$PROP.log 2>&1
rc=$?
rm -rf $M
echo "== $ID on $PROP: exit $rc"
grep -E "VIOLATION|INCONCLUSIVE|failed:|OK:" /verif/out/mut.$ID.$PROP.log | cut -c1-260 | head -8
