#!/usr/bin/env bash
# thorough tier for all claimed properties, two properties at a time (8 solver jobs each)
cd "$(dirname "$0")/.."
mkdir -p out
: > out/all.thorough.log
run() { p=$1; s=$(date +%s); VERIF_JOBS=8 ./bin/vcheck $p --tier thorough > out/all.thorough.$p.log 2>&1; rc=$?; echo "$p rc=$rc $(( $(date +%s) - s ))s" >> out/all.thorough.log; grep -aE "^INCONCLUSIVE|^VIOLATION|^UNDECIDED" out/all.thorough.$p.log | cut -c1-200 >> out/all.thorough.log; }
( for p in C03 C02 C05 C06 C12 C14; do run $p; done ) &
( for p in C04 C07 C08 C09 C10 C11; do run $p; done ) &
wait
echo DONE >> out/all.thorough.log
