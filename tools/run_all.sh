#!/usr/bin/env bash
# run every claimed check (tier = $1, default quick) sequentially; summary in out/all.<tier>.log
T=${1:-quick}
cd "$(dirname "$0")/.."
mkdir -p out
: > out/all.$T.log
for p in $(python3 -c "import json;print(' '.join(c['property_id'] for c in json.load(open('MANIFEST.json'))['checks']))"); do
  s=$(date +%s)
  ./bin/vcheck $p --tier $T > out/all.$T.$p.log 2>&1
  rc=$?
  e=$(( $(date +%s) - s ))
  echo "$p rc=$rc ${e}s" >> out/all.$T.log
  grep -aE "INCONCLUSIVE|VIOLATION" out/all.$T.$p.log | cut -c1-300 >> out/all.$T.log
done
echo DONE >> out/all.$T.log
