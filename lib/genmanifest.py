#!/usr/bin/env python3
"""regenerates /verif/MANIFEST.json from the table below (kept in one place so that it stays valid)"""
import json, os
V = os.path.dirname(os.path.dirname(os.path.abspath(__file__)))
TRUST = ("Trusted: rustc->MIR, Kani 0.68 MIR->goto translation, CBMC 6.11 bit-precise IEEE-754/integer semantics, "
         "CaDiCaL (z3/cvc5 where named), the libm contract stubs in harness/support.rs (each validated against the real libm by setup), "
         "rand's RNG traits; bounds, stubs and assumptions of every harness are listed in the evidence file.")
CLAIMED = {
 "C03": dict(
   text="Bounded model checking of the real sample() code (Kani->CBMC->SAT): for each family x {f32,f64} the parameters and every RNG word are free bit-vectors; "
        "the solver shows no assertion (support, NaN, infinity, Rust panic) can fail within the stated word budget, or returns a concrete stream that is replayed natively. "
        "Rare-word events (draw == 0, 1, max) are ordinary solver values, which is what sampling cannot reach.",
   design="§7 C03", technique="Kani/CBMC bounded model checking of the real samplers over symbolic parameters and RNG words; libm by contract stubs; native replay of counterexamples"),
 "C04": dict(
   text="Per constructor, all argument bit patterns (NaN payloads, +-0, subnormals, +-inf, integer extremes) are symbolic; the solver proves Ok <=> no documented error condition holds, "
        "the returned variant's documented condition is true, accessors return the arguments, and no panic is reachable. Documentation-silent regions are assumed away and listed per harness.",
   design="§7 C04", technique="Kani/CBMC bounded model checking of the real constructors against documented-domain predicates over all argument bit patterns"),
 "C06": dict(
   text="Tables: every ziggurat equation (monotonicity, end points, density to 1e-14 via exp in QF_NRAT, equal areas and base strip + tail to 1e-8) is an SMT query over the constants parsed from the current tree, exhaustive over 4x257 entries (cvc5, cross-checked with z3 where polynomial). "
        "Algorithm: the real utils::ziggurat + StandardNormal/Exp1 closures are model-checked per path (rectangle / wedge / tail) over all words: layer index, rectangle bounds, tail beyond R with the sign of the uniform, word counts.",
   design="§7 C06", technique="SMT (cvc5 QF_NRAT / z3) over the table constants, exhaustive; Kani/CBMC bounded model checking of the ziggurat algorithm per path"),
 "C09": dict(
   text="One inductive step from an arbitrary valid state (subtotal heap of an arbitrary weight list, built directly) through the real new/push/pop/update, with all weights and the index symbolic: "
        "post-state equals the subtotal heap of the updated list field-wise (and == new(list) through the real PartialEq), accessors agree, errors are exactly InvalidWeight/Overflow as documented and leave the state unchanged, no panic. By induction this covers histories of any length for lengths up to the bound.",
   design="§7 C09, §6.1", technique="Kani/CBMC bounded model checking: one inductive step of each operation from an arbitrary valid state, lengths <= 8"),
 "C10": dict(
   text="Arbitrary valid state, symbolic RNG words, the real try_sample including rand's random_range: the returned index must own the target (that rand draws from the same words) in the post-order interval layout, so exactly w_i of the total targets map to i; zero-weight indices own no target; errors iff total is zero; no panic.",
   design="§7 C10", technique="Kani/CBMC bounded model checking of try_sample against an interval specification, integer weights, lengths <= 7"),
}
NA = {
 "C01": "probability-law statement (measure of sets of streams through ln/exp/pow/tan): not a safety assertion and not bit-blastable; see DESIGN.md §7 C01. Support/NaN (C03), ziggurat exactness (C06), affine algebra (C07) are decided elsewhere.",
 "C13": "the property is an exhaustive enumeration of 2^24 concrete evaluations of real tanf/logf/powf plus a Kolmogorov distance: enumeration of concrete runs is outside solver-based checking; the qualitative half (all 2^24 outputs in the support, no NaN) is decided symbolically under C03.",
 "C15": "proc-macro generated (de)serialisers through a text format: shortest-round-trip float printing/parsing has no useful unwinding bound; see DESIGN.md §7 C15.",
}
for pid in ["C02","C05","C07","C08","C11","C12","C14"]:
    NA[pid] = "harnesses not built yet (work in progress; see DESIGN.md §7 for the plan)"

def main():
    checks = []
    for pid, c in sorted(CLAIMED.items()):
        checks.append({
            "property_id": pid,
            "quick_cmd": "./bin/vcheck %s --tier quick" % pid,
            "thorough_cmd": "./bin/vcheck %s --tier thorough" % pid,
            "evidence_file": "/verif/evidence/%s.json" % pid,
            "replay_cmd_template": "./bin/vcheck %s --replay {path}" % pid,
            "engine": "kani-cbmc",
            "level_claimed": {"category": "model_checking", "text": c["text"], "design_ref": c["design"]},
            "level_note": c.get("note", "") + TRUST,
            "technique": c["technique"],
        })
    m = {
        "version": 1,
        "setup_cmd": "./bin/vsetup",
        "hooks": {
            "guard": "cfg(kani)",
            "enable": "no hook is committed to /repo: every check copies /repo's working tree to a scratch dir and appends `#[cfg(kani)] #[path=...] mod __verif;` lines there (cfg(kani) is set only by cargo kani)",
            "baseline_off_cmd": "cd /repo && cargo test --workspace --no-fail-fast --offline",
            "source_commits": [],
            "add_only": True,
        },
        "engines": [
            {"name": "kani-cbmc", "path": "/verif/bin/vcheck", "serves_properties": sorted(CLAIMED),
             "kind_free_text": "Kani 0.68 -> CBMC 6.11 -> CaDiCaL: symbolic execution of the real crate code from the current working tree, injected harness modules from /verif/harness"},
        ],
        "checks": checks,
        "not_applicable": [{"property_id": k, "reason": v} for k, v in sorted(NA.items()) if k not in CLAIMED],
        "notes": "Exit codes: 0 pass, 1 VIOLATION (solver counterexample reproduced natively), 2 inconclusive (never counted as pass). known_findings.json lists genuine defects of the pinned tree by region.",
    }
    json.dump(m, open(os.path.join(V, "MANIFEST.json"), "w"), indent=1)

if __name__ == "__main__":
    main()
