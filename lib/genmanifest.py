#!/usr/bin/env python3
"""regenerates /verif/MANIFEST.json from the table below (kept in one place so that it stays valid)"""
import json, os
V = os.path.dirname(os.path.dirname(os.path.abspath(__file__)))
TRUST = ("Trusted: rustc->MIR, Kani 0.68 MIR->goto translation, CBMC 6.11 bit-precise IEEE-754/integer semantics, "
         "CaDiCaL (z3/cvc5 where named), the libm contract stubs in harness/support.rs (each validated against the real libm by setup), "
         "rand's RNG traits; bounds, stubs and assumptions of every harness are listed in the evidence file.")
CLAIMED = {
 "C03": dict(
   text="Bounded model checking of the real sample() code (Kani->CBMC->SAT): for each family x {f32,f64} the parameters and every RNG word are free bit-vectors; "
        "the solver shows no assertion (support, NaN, infinity, Rust panic) can fail within the stated word budget, or returns a concrete stream that is replayed natively. "
        "Rare-word events (draw == 0, 1, max) are ordinary solver values, which is what sampling cannot reach.",
   design="§7 C03", technique="Kani/CBMC bounded model checking of the real samplers over symbolic parameters and RNG words; libm by contract stubs; native replay of counterexamples"),
}
NA = {}
for pid in ["C01","C02","C04","C05","C06","C07","C08","C09","C10","C11","C12","C13","C14","C15"]:
    NA[pid] = "harnesses not built yet (work in progress; see DESIGN.md §7 for the plan)"

def main():
    checks = []
    for pid, c in sorted(CLAIMED.items()):
        checks.append({
            "property_id": pid,
            "quick_cmd": "./bin/vcheck %s --tier quick" % pid,
            "thorough_cmd": "./bin/vcheck %s --tier thorough" % pid,
            "evidence_file": "/verif/evidence/%s.json" % pid,
            "replay_cmd_template": "./bin/vcheck %s --replay {path}" % pid,
            "engine": "kani-cbmc",
            "level_claimed": {"category": "model_checking", "text": c["text"], "design_ref": c["design"]},
            "level_note": c.get("note", "") + TRUST,
            "technique": c["technique"],
        })
    m = {
        "version": 1,
        "setup_cmd": "./bin/vsetup",
        "hooks": {
            "guard": "cfg(kani)",
            "enable": "no hook is committed to /repo: every check copies /repo's working tree to a scratch dir and appends `#[cfg(kani)] #[path=...] mod __verif;` lines there (cfg(kani) is set only by cargo kani)",
            "baseline_off_cmd": "cd /repo && cargo test --workspace --no-fail-fast --offline",
            "source_commits": [],
            "add_only": True,
        },
        "engines": [
            {"name": "kani-cbmc", "path": "/verif/bin/vcheck", "serves_properties": sorted(CLAIMED),
             "kind_free_text": "Kani 0.68 -> CBMC 6.11 -> CaDiCaL: symbolic execution of the real crate code from the current working tree, injected harness modules from /verif/harness"},
        ],
        "checks": checks,
        "not_applicable": [{"property_id": k, "reason": v} for k, v in sorted(NA.items()) if k not in CLAIMED],
        "notes": "Exit codes: 0 pass, 1 VIOLATION (solver counterexample reproduced natively), 2 inconclusive (never counted as pass). known_findings.json lists genuine defects of the pinned tree by region.",
    }
    json.dump(m, open(os.path.join(V, "MANIFEST.json"), "w"), indent=1)

if __name__ == "__main__":
    main()
