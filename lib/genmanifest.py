#!/usr/bin/env python3
"""regenerates /verif/MANIFEST.json from the table below (kept in one place so that it stays valid)"""
import json, os
V = os.path.dirname(os.path.dirname(os.path.abspath(__file__)))
TRUST = ("Trusted: rustc->MIR, Kani 0.68 MIR->goto translation, CBMC 6.11 bit-precise IEEE-754/integer semantics, "
         "CaDiCaL (z3/cvc5 where named), the libm contract stubs in harness/support.rs (each validated against the real libm by setup), "
         "rand's RNG traits; bounds, stubs and assumptions of every harness are listed in the evidence file.")
CLAIMED = {
 "C03": dict(
   text="Bounded model checking of the real sample() code (Kani->CBMC->SAT): for each family x {f32,f64} the parameters and every RNG word are free bit-vectors; "
        "the solver shows no assertion (support, NaN, infinity, Rust panic) can fail within the stated word budget, or returns a concrete stream that is replayed natively. "
        "Rare-word events (draw == 0, 1, max) are ordinary solver values, which is what sampling cannot reach.",
   design="§0.4, §7 C03", technique="Kani/CBMC bounded model checking of the real samplers over symbolic parameters and RNG words; libm by contract stubs; native replay of counterexamples"),
 "C04": dict(
   text="Per constructor, all argument bit patterns (NaN payloads, +-0, subnormals, +-inf, integer extremes) are symbolic; the solver proves Ok <=> no documented error condition holds, "
        "the returned variant's documented condition is true, accessors return the arguments, and no panic is reachable. Documentation-silent regions are assumed away and listed per harness.",
   design="§0.4, §7 C04", technique="Kani/CBMC bounded model checking of the real constructors against documented-domain predicates over all argument bit patterns"),
 "C06": dict(
   text="Tables: every ziggurat equation (monotonicity, end points, density to 1e-14 via exp in QF_NRAT, equal areas and base strip + tail to 1e-8) is an SMT query over the constants parsed from the current tree, exhaustive over 4x257 entries (cvc5, cross-checked with z3 where polynomial). "
        "Algorithm: the real utils::ziggurat + StandardNormal/Exp1 closures are model-checked per path (rectangle / wedge / tail) over all words: layer index, rectangle bounds, tail beyond R with the sign of the uniform, word counts.",
   design="§0.4, §7 C06", technique="SMT (cvc5 QF_NRAT / z3) over the table constants, exhaustive; Kani/CBMC bounded model checking of the ziggurat algorithm per path"),
 "C09": dict(
   text="One inductive step from an arbitrary valid state (subtotal heap of an arbitrary weight list, built directly) through the real new/push/pop/update, with all weights and the index symbolic: "
        "post-state equals the subtotal heap of the updated list field-wise (and == new(list) through the real PartialEq), accessors agree, errors are exactly InvalidWeight/Overflow as documented and leave the state unchanged, no panic. By induction this covers histories of any length for lengths up to the bound.",
   design="§0.4, §6.1, §7 C09", technique="Kani/CBMC bounded model checking: one inductive step of each operation from an arbitrary valid state, lengths <= 8"),
 "C10": dict(
   text="Arbitrary valid state, symbolic RNG words, the real try_sample including rand's random_range: the returned index must own the target (that rand draws from the same words) in the post-order interval layout, so exactly w_i of the total targets map to i; zero-weight indices own no target; errors iff total is zero; no panic.",
   design="§0.4, §7 C10", technique="Kani/CBMC bounded model checking of try_sample against an interval specification, integer weights, lengths <= 7"),
}
CLAIMED.update({
 "C02": dict(
   text="Partial, solver-decided necessary conditions of the pmf claim, where reflection / off-by-one / method-switch bugs live: Hypergeometric symmetry reductions map the reduced support onto the documented one (all K,n<=N in bounded and extreme ranges); Binomial method switch and p->1-p flip, BINV state r = q^n for every n (incl. n >= 2^31); the H2PE centre equals the mode floor((k+1)(n1+1)/(N+2)) in exact integer arithmetic and H2PE is used iff mode - max(0,k-n2) >= 10 (all K,n<=N = 43 quick; N<=63 and N<=255 thorough); StandardGeometric's exact word-interval law; Zipf's normalising constant on both sides of s = 1. The acceptance-probability parts (BTPE, PD, H2PE, rejection-inversion) are law statements outside the technique (level_note).",
   design="§0.4, §7 C02", technique="Kani/CBMC bounded model checking of constructor state and bit-level samplers; free logging stubs for the algebraic structure around libm calls",
   note="NOT decided: that BINV/BTPE/PD/HIN/H2PE/rejection-inversion acceptance tests realise the pmf (probabilities through ln/exp/pow). "),
 "C05": dict(
   text="Partial: the one state-carrying loop that can be encoded is bounded by an unwinding assertion that the solver proves (BINV walk <= 112 steps for every first word, from concrete constructor states incl. a deliberately sticking one); the Hypergeometric HIN walk is proved to end within the support for concrete parameter sets ((25,10,5), (10,5,3) quick; (52,4,5) thorough) and every uniform draw (incl. 1-2^-53, which exceeds the rounded pmf sum for some of them); every rejection loop in the C03/C12 harnesses is bounded through the RNG word budget with unwinding assertions ON, which proves each trial consumes >= 1 word and lists the words per trial. Mean acceptance rates are probabilities and are not decided.",
   design="§0.4, §7 C05", technique="Kani/CBMC unwinding assertions (proved loop bounds) + word-budget bounded rejection loops; counterexample rebuilt from the CBMC trace and replayed natively (hang detection)",
   note="NOT decided: mean number of trials / acceptance rate not collapsing; BTPE step 5.1 and H2PE step 4.1 walks; HIN loop length for parameter sets other than those concrete ones. "),
 "C07": dict(
   text="For each location/scale family the sampler's algebra around its parameter-free standard quantity g (a libm result or a ziggurat draw) is checked for every parameter value: sample == loc + scale*g bit-for-bit, the libm arguments are the documented ones, the same number of words is consumed whatever the parameters, from_zscore(z) == mean + std_dev*z, precomputed reciprocals equal the documented transform (on concrete shapes). g ranges over a small value set supplied by free logging stubs (any value would do for pure algebra). Gamma (all three internal variants) is checked as a two-run relation on one stream: sample(shape, 2^j) == 2^j * sample(shape, 1) bit-for-bit with equal word counts, under deterministic stand-ins for ziggurat/ln/pow.",
   design="§0.4, §7 C07", technique="Kani/CBMC bounded model checking with free logging stubs for libm/ziggurat (uninterpreted standard draw); native replay evaluates the same assertion with the real libm",
   note="g restricted to {0,-0,+-1,2,1/2,3/4,-3}; Gamma only for scales 2^j and shapes 1/2, 1, 5/2 within one trial; InverseGaussian, Triangular, Pert not covered (their scale relation needs a homogeneous sqrt model). "),
 "C08": dict(
   text="new() on every weight vector of a small length: documented error variants exactly; on Ok the alias table satisfies the mass identity odds[i] + sum_{alias[j]=i}(sum - odds[j]) == len*w_i (so the law is exactly w_i/sum and zero-weight indices carry no mass); weights() returns the vector; sample() == `column if threshold < odds[column] else alias[column]` with the real rand Uniform draws; vectors longer than W::MAX and longer than the 32-element summation block are covered by dedicated harnesses; float weights are out of reach (level_note).",
   design="§0.4, §7 C08", technique="Kani/CBMC bounded model checking of the alias construction against the mass identity, lengths <= 3 (quick) / 4 (thorough)",
   note="NOT decided: float weight types (rand's Uniform::<F>::new_bounded loop cannot be bounded by the solver); lengths > 4 except the two dedicated harnesses. "),
 "C11": dict(
   text="Partial: Dirichlet::new accepts exactly the documented domain, picks stick-breaking iff all alpha <= 0.1, and its Beta chain is Beta(alpha_i, sum of later alphas) (the reversed cumulative sum index error the property describes) for every alpha vector of length 2..4; on length-17 vectors (sixteen entries 0.09, one arbitrary entry at an arbitrary position) the method switch, sampler counts and algorithm BC for every stick-breaking Beta (tail sums cross 1); the stick-breaking sampler writes every output component (buffer pre-filled with NaN), 3 components with structure-only stubs and 4 components with ln/exp replaced by arbitrary finite / non-negative values: every component in [0,1]. Marginal/conditional Beta laws are law statements and are not decided.",
   design="§0.4, §7 C11", technique="Kani/CBMC bounded model checking of constructor structure (all alpha bit patterns, len <= 4; len 17 with one free entry) and of the stick-breaking sampler",
   note="NOT decided: Beta marginals; sum-to-one within ulps; lengths 5..64 except the length-17 structure harness; gamma path sampling (a 9-component harness ran out of memory in propositional reduction: the Marsaglia-Tsang loops of all samplers are unwound although alpha = 1 never enters them). "),
 "C12": dict(
   text="Partial: for all four samplers and both float types: a trial consumes exactly 2 (3 for the ball) draws, the acceptance test is exactly decided in the regions |x|<=1/2 (must accept) and |x|>=3/4 (must reject), disc/ball return exactly the accepted candidate, circle/sphere first-trial outputs are NaN-free with the documented sign structure. Uniformity w.r.t. arc length/area is a law statement and is not decided.",
   design="§0.4, §7 C12", technique="Kani/CBMC bounded model checking over all candidate words (two trials), acceptance decided by regions",
   note="NOT decided: uniformity; |norm - 1| within ulps. "),
 "C14": dict(
   text="Frame condition instead of self-composition: sample() is wrapped in a function contract modifies(rng) and CBMC's assigns-clause instrumentation checks every write in its call tree against {rng, locals}, for arbitrary parameter values and RNG state (loop-free samplers and UnitDisc); a failed assigns check is reported as VIOLATION (nothing to replay). WeightedTreeIndex::sample_iter agrees with repeated sample on every stream (u8, 3 weights). Supported by a scan of the pristine tree for any interior-mutability / static / unsafe site (reported in the evidence; a hit makes the check inconclusive, never a pass).",
   design="§0.4, §7 C14", technique="Kani function contracts (assigns-clause / frame checking by CBMC) on sample() wrappers",
   note="Rejection-loop families with libm calls exhausted memory under the contract instrumentation and are not covered; clone/eq are derived impls (not checked). "),
})
NA = {
 "C01": "probability-law statement (measure of sets of streams through ln/exp/pow/tan): not a safety assertion and not bit-blastable; see DESIGN.md §7 C01. Support/NaN (C03), ziggurat exactness (C06), affine algebra (C07) are decided elsewhere.",
 "C13": "the property is an exhaustive enumeration of 2^24 concrete evaluations of real tanf/logf/powf plus a Kolmogorov distance: enumeration of concrete runs is outside solver-based checking; the qualitative half (all 2^24 outputs in the support, no NaN) is decided symbolically under C03.",
 "C15": "proc-macro generated (de)serialisers through a text format: shortest-round-trip float printing/parsing has no useful unwinding bound; see DESIGN.md §7 C15.",
}

def main():
    checks = []
    for pid, c in sorted(CLAIMED.items()):
        checks.append({
            "property_id": pid,
            "quick_cmd": "./bin/vcheck %s --tier quick" % pid,
            "thorough_cmd": "./bin/vcheck %s --tier thorough" % pid,
            "evidence_file": "/verif/evidence/%s.json" % pid,
            "replay_cmd_template": "./bin/vcheck %s --replay {path}" % pid,
            "engine": "kani-cbmc",
            "level_claimed": {"category": "model_checking", "text": c["text"], "design_ref": c["design"]},
            "level_note": c.get("note", "") + TRUST,
            "technique": c["technique"],
        })
    m = {
        "version": 1,
        "setup_cmd": "./bin/vsetup",
        "hooks": {
            "guard": "cfg(kani)",
            "enable": "no hook is committed to /repo: every check copies /repo's working tree to a scratch dir and appends `#[cfg(kani)] #[path=...] mod __verif;` lines there (cfg(kani) is set only by cargo kani)",
            "baseline_off_cmd": "cd /repo && cargo test --workspace --no-fail-fast --offline",
            "source_commits": [],
            "add_only": True,
        },
        "engines": [
            {"name": "kani-cbmc", "path": "/verif/bin/vcheck", "serves_properties": sorted(CLAIMED),
             "kind_free_text": "Kani 0.68 -> CBMC 6.11 -> CaDiCaL: symbolic execution of the real crate code from the current working tree, injected harness modules from /verif/harness"},
        ],
        "checks": checks,
        "not_applicable": [{"property_id": k, "reason": v} for k, v in sorted(NA.items()) if k not in CLAIMED],
        "notes": "Exit codes: 0 pass, 1 VIOLATION (solver counterexample reproduced natively, or a frame-condition failure), 2 inconclusive (never counted as pass). known_findings.json lists genuine defects of the pinned tree by region (open) and the two repaired ones (fixed). Thorough-tier harnesses marked best-effort that do not finish are reported as UNDECIDED and not counted. DESIGN.md section 0 describes the as-built machinery and which seeded changes each check catches.",
    }
    json.dump(m, open(os.path.join(V, "MANIFEST.json"), "w"), indent=1)

if __name__ == "__main__":
    main()
