"""Driver for the solver-based checks (DESIGN.md §3, §6.3, §8).

All deciding work is done by CBMC (via `cargo kani`) or cvc5/z3 (smt/*.py).  This file only
prepares the encoding from /repo's *current working tree*, schedules solver runs under memory
and time caps, classifies their verdicts, replays counterexamples natively and writes evidence.
"""
import concurrent.futures as cf
import glob
import json
import os
import re
import shutil
import signal
import subprocess
import sys
import time

VERIF = os.path.dirname(os.path.dirname(os.path.abspath(__file__)))
REPO = os.environ.get("VERIF_REPO", "/repo")
HARNESS_DIR = os.path.join(VERIF, "harness")
SCRATCH_ROOT = os.environ.get("VERIF_SCRATCH", "/var/tmp")
MEM_KB = int(os.environ.get("VERIF_MEM_KB", str(11 * 1024 * 1024)))  # ulimit -v per process

ENV = dict(os.environ)
ENV["CARGO_NET_OFFLINE"] = "true"
ENV.pop("RUSTFLAGS", None)
ENV.pop("RUSTUP_TOOLCHAIN", None)
ENV["CARGO_TERM_COLOR"] = "never"

REPLAY_CAP = int(os.environ.get("VERIF_REPLAY_CAP", "240"))  # native test not finished => HANG
PROP_RE = re.compile(r"^C\d\d$")


def log(*a):
    print(*a, flush=True)


# ----------------------------------------------------------------------------------------
# harness registry: `//@ key: value` blocks in /verif/harness/*.rs
# ----------------------------------------------------------------------------------------

def parse_harnesses():
    hs = []
    for path in sorted(glob.glob(os.path.join(HARNESS_DIR, "*.rs"))):
        base = os.path.basename(path)
        if base == "support.rs":
            continue
        cur = None
        for line in open(path):
            m = re.match(r"\s*//@\s*(\w+):\s*(.*?)\s*$", line)
            if m:
                if cur is None:
                    cur = {}
                k, v = m.group(1), m.group(2)
                if k in cur:
                    cur[k] += "; " + v
                else:
                    cur[k] = v
            else:
                if cur is not None:
                    if "id" in cur:
                        cur["file"] = base
                        cur.setdefault("tier", "quick")
                        cur.setdefault("cap", "600")
                        cur.setdefault("expect", "pass")
                        hs.append(cur)
                    cur = None
    ids = [h["id"] for h in hs]
    dup = {i for i in ids if ids.count(i) > 1}
    if dup:
        raise SystemExit("duplicate harness ids: %s" % dup)
    return hs


# ----------------------------------------------------------------------------------------
# scratch copy with injected harness modules
# ----------------------------------------------------------------------------------------

class Scratch:
    def __init__(self, keep=False, files=None):
        self.dir = os.path.join(SCRATCH_ROOT, "verif.%d" % os.getpid())
        self.keep = keep
        self.files = files  # harness files to inject (None = all)
        self.repo = os.path.join(self.dir, "repo")
        self.hdir = os.path.join(self.dir, "harness")
        self.modpath = {}
        self.pristine = {}

    def __enter__(self):
        # remove scratch copies left behind by killed runs (older than 12 h)
        for old in glob.glob(os.path.join(SCRATCH_ROOT, "verif.*")) + glob.glob(os.path.join(SCRATCH_ROOT, "mutrepo.*")):
            try:
                if time.time() - os.path.getmtime(old) > 12 * 3600:
                    shutil.rmtree(old, ignore_errors=True)
            except OSError:
                pass
        shutil.rmtree(self.dir, ignore_errors=True)
        os.makedirs(self.dir)
        subprocess.check_call(["rsync", "-a", "--exclude", "target", "--exclude", ".git",
                               REPO + "/", self.repo + "/"])
        shutil.copytree(HARNESS_DIR, self.hdir)
        self.pristine_scan()
        self.inject()
        return self

    def __exit__(self, *a):
        if not self.keep:
            shutil.rmtree(self.dir, ignore_errors=True)

    def pristine_scan(self):
        """facts about the untouched tree that some checks rely on (DESIGN §3 step 2, C14)"""
        src = os.path.join(self.repo, "src")
        lib = open(os.path.join(src, "lib.rs")).read()
        self.pristine["forbid_unsafe"] = bool(re.search(r"#!\[forbid\(unsafe_code\)\]", lib))
        bad = []
        pat = re.compile(r"\bunsafe\b|static\s+mut\b|\bCell\b|\bRefCell\b|\bAtomic\w*|thread_local|"
                         r"\bOnceCell\b|\bOnceLock\b|\bLazyLock\b|\bMutex\b|\bRwLock\b|"
                         r"\bstatic\s+[A-Z_]+\s*:")
        for root, _, files in os.walk(src):
            for f in files:
                if not f.endswith(".rs"):
                    continue
                p = os.path.join(root, f)
                for n, line in enumerate(open(p), 1):
                    code = line.split("//")[0]
                    if pat.search(code) and "forbid(unsafe_code)" not in code:
                        # `pub static ZIG_*: [f64; 257]` style immutable tables are fine
                        if re.search(r"\bstatic\s+[A-Z_0-9]+\s*:", code) and "mut" not in code \
                                and not re.search(r"Cell|Atomic|Mutex|Lock", code):
                            continue
                        bad.append("%s:%d:%s" % (os.path.relpath(p, self.repo), n, code.strip()))
        self.pristine["mutable_state_sites"] = bad

    def inject(self):
        src = os.path.join(self.repo, "src")
        index = {}
        for root, _, files in os.walk(src):
            for f in files:
                if f.endswith(".rs"):
                    index.setdefault(f, []).append(os.path.join(root, f))
        wanted = None
        if self.files is not None:
            # close the selection under the `//@@ needs:` declarations
            wanted = set(self.files)
            grew = True
            while grew:
                grew = False
                for f in list(wanted):
                    for line in open(os.path.join(self.hdir, f)):
                        m = re.match(r"\s*//@@\s*needs:\s*(.*)$", line)
                        if m:
                            for n in m.group(1).replace(",", " ").split():
                                if n not in wanted:
                                    wanted.add(n)
                                    grew = True
        for h in sorted(os.listdir(self.hdir)):
            if not h.endswith(".rs") or h == "support.rs":
                continue
            if wanted is not None and h not in wanted:
                continue
            # harness/<src>.rs and harness/<src>__<tag>.rs both attach to src/**/<src>.rs
            base, _, tag = h[:-3].partition("__")
            tgt = index.get(base + ".rs")
            if not tgt or len(tgt) != 1:
                raise SystemExit("INCONCLUSIVE: cannot find unique src file for harness %s" % h)
            tgt = tgt[0]
            modname = "__verif" + ("_" + tag if tag else "")
            with open(tgt, "a") as fh:
                fh.write('\n#[cfg(kani)] #[path = "%s"] pub(crate) mod %s;\n' % (os.path.join(self.hdir, h), modname))
            rel = os.path.relpath(tgt, src)[:-3].split(os.sep)
            if rel[-1] == "mod":
                rel = rel[:-1]
            self.modpath[h] = "::".join(rel + [modname])
        libp = os.path.join(src, "lib.rs")
        lib = open(libp).read()
        lib = lib.replace("#![forbid(unsafe_code)]", "#![cfg_attr(not(kani), forbid(unsafe_code))]")
        lib = '#![cfg_attr(kani, recursion_limit = "1024")]\n' + lib
        lib += '\n#[cfg(kani)] #[path = "%s"] pub(crate) mod __verif_support;\n' % os.path.join(
            self.hdir, "support.rs")
        open(libp, "w").write(lib)


# ----------------------------------------------------------------------------------------
# running one harness
# ----------------------------------------------------------------------------------------

def run_capped(cmd, cwd, cap, logpath, mem_kb=MEM_KB, env=None):
    """run under ulimit -v and a wall-clock cap, killing the whole process group"""
    sh = "ulimit -v %d; exec %s" % (mem_kb, " ".join("'%s'" % c.replace("'", "'\\''") for c in cmd))
    t0 = time.time()
    with open(logpath, "w") as lf:
        p = subprocess.Popen(["bash", "-c", sh], cwd=cwd, stdout=lf, stderr=subprocess.STDOUT,
                             env=env or ENV, start_new_session=True)
        try:
            rc = p.wait(timeout=cap)
            timed_out = False
        except subprocess.TimeoutExpired:
            timed_out = True
            try:
                os.killpg(p.pid, signal.SIGKILL)
            except ProcessLookupError:
                pass
            p.wait()
            rc = -9
    return rc, timed_out, time.time() - t0


CHECK_RE = re.compile(
    r"Check \d+: (?P<name>\S.*?)\n\s*- Status: (?P<status>\w+)\n\s*- Description: \"(?P<desc>.*?)\"\n"
    r"(?:\s*- Location: (?P<loc>.*?)\n)?", re.S)


def parse_kani(text):
    r = {"checks": [], "verdict": None, "solver_s": 0.0, "queries": 0, "vars": 0, "clauses": 0,
         "stubs": []}
    # keep only the last RESULTS section (concrete playback re-prints nothing else)
    for m in CHECK_RE.finditer(text):
        r["checks"].append({"name": m.group("name"), "status": m.group("status"),
                            "desc": m.group("desc"), "loc": (m.group("loc") or "").strip()})
    m = re.search(r"VERIFICATION:- (\w+)", text)
    if m:
        r["verdict"] = m.group(1)
    for m in re.finditer(r"Runtime decision procedure: ([\d.e+-]+)s", text):
        r["solver_s"] += float(m.group(1))
        r["queries"] += 1
    for m in re.finditer(r"(\d+) variables, (\d+) clauses", text):
        r["vars"] = max(r["vars"], int(m.group(1)))
        r["clauses"] = max(r["clauses"], int(m.group(2)))
    r["stubs"] = re.findall(r"- Stub: (.*)", text)
    m = re.search(r"Verification Time: ([\d.]+)s", text)
    r["kani_s"] = float(m.group(1)) if m else None
    return r


def playback_tests(text):
    """extract (kind, description, test source) triples printed by --concrete-playback print"""
    out = []
    for m in re.finditer(r"Concrete playback unit test for `[^`]*`:\n```\n(.*?)```", text, re.S):
        src = m.group(1)
        k = re.search(r"/// Check for `(\w+)`: \"(.*?)\"\n", src, re.S)
        out.append((k.group(1) if k else "?", k.group(2) if k else "?", src))
    return out


SIZES = {"u8": 1, "i8": 1, "bool": 1, "u16": 2, "i16": 2, "u32": 4, "i32": 4, "f32": 4, "char": 4,
         "u64": 8, "i64": 8, "f64": 8, "usize": 8, "isize": 8, "u128": 16, "i128": 16}


def trace_playback_test(h, text):
    """Kani prints no concrete-playback test for a failed *unwinding assertion*.  Rebuild one from CBMC's
    trace (`--output-format old --cbmc-args --trace`): the nondet inputs are the return values of
    kani::any_raw_internal::<T> / kani::any_raw_array::<T, N>, in call order."""
    m = re.search(r"^Trace for [^\n]*\.unwind\.\d+:\n(.*?)(?=^Trace for |\Z)", text, re.S | re.M)
    if not m:
        return None
    sec = m.group(1)
    vals = []
    cur = None  # (type, n) of the any_raw call we are inside
    arr = None
    for line in sec.split("\n"):
        st = re.match(r"State \d+ .* function kani::any_raw_(internal|array)::<([\w]+)(?:, (\d+))?>", line)
        if st:
            ty, n = st.group(2), st.group(3)
            if st.group(1) == "array":
                key = ("array", ty, int(n))
                if cur != key:
                    cur = key
                    arr = [bytes(SIZES.get(ty, 8))] * int(n)
                    vals.append(arr)
            else:
                cur = ("scalar", ty, 1)
            continue
        rv = re.match(r"\s+goto_symex\$\$return_value\$\$\w*4kani\d+any_raw_(internal|array)\w*(?:\[(\d+)\])?=.*\(([01 ]+)\)\s*$", line)
        if rv and cur:
            bits = rv.group(3).replace(" ", "")
            by = int(bits, 2).to_bytes(len(bits) // 8, "little")
            if rv.group(1) == "array" and cur[0] == "array" and rv.group(2) is not None:
                arr[int(rv.group(2))] = by
            elif rv.group(1) == "internal" and cur[0] == "scalar":
                vals.append(by)
                cur = None
    flat = []
    for v in vals:
        if isinstance(v, list):
            flat.extend(v)
        else:
            flat.append(v)
    if not flat:
        return None
    body = ",\n".join("        vec![%s]" % ", ".join(str(b) for b in v) for v in flat)
    src = ("/// Test rebuilt from the CBMC trace of a failed unwinding assertion of harness `%s`\n"
           "/// Check for `unwind`: \"loop bound exceeded\"\n"
           "#[test]\nfn kani_concrete_playback_%s_unwind() {\n    let concrete_vals: Vec<Vec<u8>> = vec![\n%s,\n    ];\n"
           "    kani::concrete_playback_run(concrete_vals, %s);\n}\n" % (h["id"], h["id"], body, h["id"]))
    return ("unwind", "loop bound exceeded (unwinding assertion)", src)


def classify(h, rc, timed_out, text, parsed):
    """-> (status, reason, failed_checks) with status in PASS / FAIL / INCONCLUSIVE"""
    if timed_out:
        return "INCONCLUSIVE", "timeout after %ss" % h["cap"], []
    if "error: could not compile" in text or re.search(r"^error(\[E\d+\])?:", text, re.M) and parsed["verdict"] is None:
        m = re.search(r"^(error(\[E\d+\])?:.*)$", text, re.M)
        return "INCONCLUSIVE", "harness does not compile against this tree: %s" % (m.group(1) if m else "?"), []
    if re.search(r"Status: ERROR|CBMC failed|out of memory|std::bad_alloc|MemoryError|Killed", text) \
            and parsed["verdict"] != "SUCCESSFUL":
        if parsed["verdict"] is None:
            return "INCONCLUSIVE", "solver error / out of memory", []
    if parsed["verdict"] is None:
        return "INCONCLUSIVE", "no verdict (rc=%s)" % rc, []
    checks = parsed["checks"]
    covers = [c for c in checks if ".cover." in c["name"]]
    others = [c for c in checks if ".cover." not in c["name"]]
    failed = [c for c in others if c["status"] == "FAILURE"]
    undet = [c for c in others if c["status"] in ("UNDETERMINED", "ERROR")]
    unwind_fail = [c for c in failed if "unwinding assertion" in c["desc"] or ".unwind." in c["name"]]
    unsupported = [c for c in failed if "unsupported_construct" in c["name"] or "is not currently supported by Kani" in c["desc"]
                   or "undefined function" in c["desc"] or "no_body" in c["name"] or "no-body" in c["name"]]
    real_fail = [c for c in failed if c not in unwind_fail and c not in unsupported]
    if unsupported:
        return "INCONCLUSIVE", "unsupported construct reachable: %s" % unsupported[0]["desc"][:200], []
    if real_fail:
        return "FAIL", real_fail[0]["desc"], real_fail
    if unwind_fail:
        # a loop ran past the bound that is proved for the unchanged tree: candidate non-termination /
        # excessive iteration; it becomes a VIOLATION only if the native replay panics or hangs
        return "FAIL", "loop bound exceeded (unwinding assertion): %s" % unwind_fail[0]["loc"], unwind_fail
    if undet:
        return "INCONCLUSIVE", "undetermined checks: %s" % undet[0]["desc"][:200], []
    if parsed["verdict"] != "SUCCESSFUL":
        return "INCONCLUSIVE", "verdict %s without failed check" % parsed["verdict"], []
    bad_cov = [c for c in covers if c["status"] != "SATISFIED"]
    if bad_cov:
        return "INCONCLUSIVE", "vacuity witness not satisfied: %s (%s)" % (bad_cov[0]["desc"], bad_cov[0]["status"]), []
    if not covers:
        return "INCONCLUSIVE", "harness has no vacuity witness", []
    return "PASS", "", []


def kani_cmd(h, scratch, tdir, playback=True):
    full = "%s::%s" % (scratch.modpath[h["file"]], h["id"])
    cmd = ["cargo", "kani", "-Z", "stubbing", "-Z", "unstable-options", "-Z", "function-contracts",
           "--harness", full, "--exact", "--target-dir", tdir,
           "--no-overflow-checks", "--no-memory-safety-checks"]
    if playback:
        cmd += ["-Z", "concrete-playback", "--concrete-playback", "print"]
    opts = h.get("opts", "").split()
    if "kissat" in opts:
        cmd += ["--solver", "kissat"]
    if "z3fpa" in opts:
        cmd += ["--solver", "z3", "--cbmc-args", "--fpa"]
    return cmd


def run_harness(h, scratch, slot, logdir):
    tdir = os.path.join(scratch.dir, "target.%d" % slot)
    base = os.path.join(scratch.dir, "target.base")
    if not os.path.isdir(tdir) and os.path.isdir(base):
        subprocess.call(["cp", "-a", base, tdir])
    logpath = os.path.join(logdir, h["id"] + ".log")
    default_scale = "3" if os.environ.get("VERIF_TIER_EFFECTIVE", "quick") == "quick" else "2"
    cap = int(float(h["cap"]) * float(os.environ.get("VERIF_CAP_SCALE", default_scale)))
    # first run without trace generation (concrete playback costs ~10x on harnesses with covers)
    rc, to, wall = run_capped(kani_cmd(h, scratch, tdir, playback=False), scratch.repo, cap, logpath)
    text = open(logpath, errors="replace").read()
    parsed = parse_kani(text)
    status, reason, failed = classify(h, rc, to, text, parsed)
    want_cex = h["expect"] == "pass" or (h["expect"] == "fail" and os.environ.get("VERIF_TIER_EFFECTIVE") == "thorough")
    if status == "FAIL" and want_cex:
        # unexpected counterexample: re-run asking the solver for the concrete values
        logpath2 = os.path.join(logdir, h["id"] + ".playback.log")
        rc2, to2, wall2 = run_capped(kani_cmd(h, scratch, tdir, playback=True), scratch.repo, max(cap, 900), logpath2)
        text = open(logpath2, errors="replace").read()
        wall += wall2
    res = {"id": h["id"], "status": status, "reason": reason, "wall_s": round(wall, 1),
           "solver_s": round(parsed["solver_s"], 2), "queries": parsed["queries"],
           "n_checks": len(parsed["checks"]),
           "n_cover": len([c for c in parsed["checks"] if ".cover." in c["name"]]),
           "vars": parsed["vars"], "clauses": parsed["clauses"], "stubs": parsed["stubs"],
           "failed": failed, "log": logpath}
    if status == "FAIL":
        res["playback"] = [t for t in playback_tests(text) if t[0] != "cover"]
        if not res["playback"] and h["expect"] == "pass" and any(".unwind." in c["name"] for c in failed):
            logpath3 = os.path.join(logdir, h["id"] + ".trace.log")
            cmd = kani_cmd(h, scratch, tdir, playback=False)
            if "--cbmc-args" in cmd:
                cmd += ["--trace"]
            else:
                cmd += ["--output-format", "old", "--cbmc-args", "--trace"]
            if "--output-format" not in cmd:
                cmd[cmd.index("--cbmc-args"):cmd.index("--cbmc-args")] = ["--output-format", "old"]
            run_capped(cmd, scratch.repo, max(cap, 900), logpath3)
            t = trace_playback_test(h, open(logpath3, errors="replace").read())
            if t:
                res["playback"] = [t]
    return res


# ----------------------------------------------------------------------------------------
# native replay of a counterexample (cargo kani playback: the same harness, concrete values,
# real libm / real rand — stubs are not applied natively)
# ----------------------------------------------------------------------------------------

def native_replay(h, tests, descs, scratch, tag):
    """returns (reproduced: bool, detail, case dict)"""
    rdir = os.path.join(scratch.dir, "replay.%s" % tag)
    shutil.rmtree(rdir, ignore_errors=True)
    os.makedirs(rdir)
    subprocess.check_call(["rsync", "-a", "--exclude", "target*", scratch.repo + "/", rdir + "/repo/"])
    shutil.copytree(scratch.hdir, rdir + "/harness")
    # repoint the injected #[path]s to the replay copy
    for root, _, files in os.walk(rdir + "/repo/src"):
        for f in files:
            p = os.path.join(root, f)
            s = open(p).read()
            if scratch.hdir in s:
                open(p, "w").write(s.replace(scratch.hdir, rdir + "/harness"))
    names = []
    with open(os.path.join(rdir, "harness", h["file"]), "a") as fh:
        for i, (kind, desc, src) in enumerate(tests):
            src = re.sub(r"fn (kani_concrete_playback_\w+)\(", lambda m: "fn %s_%d(" % (m.group(1), i), src)
            names.append(re.search(r"fn (kani_concrete_playback_\w+)\(", src).group(1))
            fh.write("\n" + src + "\n")
    results = {}
    for prof in ("dev", "release"):
        cmd = ["cargo", "kani", "playback", "-Z", "concrete-playback", "--lib"]
        penv = None
        if prof == "release":
            # `cargo kani playback` has no --release: replicate its cargo invocation (see `playback -v`) with
            # --release and without -Coverflow-checks=on, i.e. the profile users actually run
            kd = os.path.expanduser("~/.kani/kani-0.68.0")
            flags = ["-Zunstable-options", "-Ztrim-diagnostic-paths=no", "-Zhuman_readable_cgu_names",
                     "-Zalways-encode-mir", "--cfg=kani", "-Zcrate-attr=feature(register_tool)",
                     "-Zcrate-attr=register_tool(kanitool)", "--force-warn", "unstable_features",
                     "--sysroot", kd + "/playback", "-L", kd + "/playback/lib", "--extern", "force:kani",
                     "--extern", "noprelude,nounused:std=" + kd + "/playback/lib/libstd.rlib"]
            penv = dict(ENV)
            penv["CARGO_ENCODED_RUSTFLAGS"] = "\x1f".join(flags)
            penv["RUSTC"] = kd + "/bin/kani-compiler"
            penv["CARGO_TERM_PROGRESS_WHEN"] = "never"
            cmd = [kd + "/toolchain/bin/cargo", "test", "--release", "--lib", "--target", "x86_64-unknown-linux-gnu",
                   "-Zhost-config", "-Ztarget-applies-to-host", '--config=host.rustflags=["--cfg=kani_host"]']
        # build first (not counted against the per-test hang cap)
        run_capped(cmd + ["--", "__build_only__"], rdir + "/repo", 1200, os.path.join(rdir, "build.%s.log" % prof),
                   mem_kb=32 * 1024 * 1024, env=penv)
        for n in names:
            logp = os.path.join(rdir, "playback.%s.%s.log" % (prof, n))
            rc, to, wall = run_capped(cmd + ["--", n, "--test-threads", "1"], rdir + "/repo", REPLAY_CAP, logp,
                                      mem_kb=32 * 1024 * 1024, env=penv)
            txt = open(logp, errors="replace").read()
            m = re.search(r"test \S*%s \.\.\. (\w+)" % re.escape(n), txt)
            st = m.group(1) if m else "missing"
            if to:
                st = "HANG"
            pm = re.search(r"---- \S*%s stdout ----\n(.*?)(?:\n----|\nfailures:)" % re.escape(n), txt, re.S)
            msg = ""
            if pm:
                body = pm.group(1)
                lines = body.split("\n")
                for j, l in enumerate(lines):
                    if "panicked at" in l:
                        msg = (lines[j + 1] if j + 1 < len(lines) else "").strip()
                        break
            results.setdefault(n, {})[prof] = {"status": st, "panic": msg}
    reproduced = False
    detail = []
    for n, (kind, desc, src) in zip(names, tests):
        for prof, r in results[n].items():
            infra = any(x in r["panic"] for x in ("det vals", "kani::assume", "assume should", "concrete_playback",
                                                  "Expected ", "kani::any", "concrete playback", "concrete values left over"))
            ok = (r["status"] == "FAILED" and r["panic"] != "" and not infra) or r["status"] == "HANG"
            detail.append("%s/%s: %s panic=%r (solver check: %r)" % (n, prof, r["status"], r["panic"], desc))
            if ok:
                reproduced = True
    case = {"harness": h["id"], "file": h["file"], "tests": [t[2] for t in tests],
            "solver_failed_checks": descs, "native": results}
    if not scratch.keep:
        shutil.rmtree(rdir, ignore_errors=True)
    return reproduced, detail, case


# ----------------------------------------------------------------------------------------
# main
# ----------------------------------------------------------------------------------------

def load_known():
    p = os.path.join(VERIF, "known_findings.json")
    if not os.path.exists(p):
        return []
    return json.load(open(p))


def select(hs, prop, tier, only):
    sel = [h for h in hs if h.get("prop") == prop]
    if tier == "quick":
        sel = [h for h in sel if h["tier"] == "quick"]
    if only:
        sel = [h for h in sel if any(o in h["id"] for o in only)]
    return sel


def main(argv):
    import argparse
    ap = argparse.ArgumentParser()
    ap.add_argument("prop")
    ap.add_argument("--tier", default=os.environ.get("VERIF_TIER", "quick"))
    ap.add_argument("--only", action="append")
    ap.add_argument("--jobs", type=int, default=int(os.environ.get("VERIF_JOBS", "16")))
    ap.add_argument("--keep", action="store_true")
    ap.add_argument("--list", action="store_true")
    ap.add_argument("--replay")
    ap.add_argument("--no-evidence", action="store_true")
    a = ap.parse_args(argv)
    if a.tier not in ("quick", "thorough"):
        a.tier = "quick"
    seed = int(os.environ.get("VERIF_SEED", "0") or 0)
    t_start = time.time()
    hs = parse_harnesses()
    prop = a.prop.upper()
    if a.list:
        for h in select(hs, prop, a.tier, a.only):
            print(h["id"], h["tier"], h["cap"], h.get("expect"), h.get("kf", ""))
        return 0
    if a.replay:
        return do_replay_file(a.replay, hs)

    sel = select(hs, prop, a.tier, a.only)
    os.environ["VERIF_TIER_EFFECTIVE"] = a.tier
    import vaux
    aux = vaux.AUX.get(prop, [])
    if not sel and not aux:
        log("no harnesses for %s" % prop)
        return 2
    known = [k for k in load_known() if k["property"] == prop]
    kf_by_witness = {k["witness_harness"]: k for k in known if k.get("status", "open") == "open"}

    # schedule: long caps first; VERIF_SEED only rotates the order of equal-cap harnesses
    sel.sort(key=lambda h: (-int(h["cap"]), (hash((h["id"], seed)) & 0xffff)))
    outdir = os.path.join(os.environ.get("VERIF_OUT", os.path.join(VERIF, "out")), prop)
    # per-process log directory (concurrent runs of the same property must not disturb each other)
    os.makedirs(outdir, exist_ok=True)
    for old in glob.glob(outdir + "/logs*"):
        try:
            if time.time() - os.path.getmtime(old) > 6 * 3600:
                shutil.rmtree(old, ignore_errors=True)
        except OSError:
            pass
    logs = outdir + "/logs.%d" % os.getpid()
    os.makedirs(logs)
    latest = outdir + "/logs"
    try:
        if os.path.islink(latest) or os.path.exists(latest):
            if os.path.islink(latest):
                os.unlink(latest)
            else:
                shutil.rmtree(latest, ignore_errors=True)
        os.symlink(logs, latest)
    except OSError:
        pass
    results = []
    aux_results = []
    with Scratch(keep=a.keep, files=sorted({h["file"] for h in sel})) as sc:
        log("[%s] tier=%s harnesses=%d scratch=%s" % (prop, a.tier, len(sel), sc.dir))
        if sel:
            # pre-build dependencies once, then clone the target dir per worker slot
            base = os.path.join(sc.dir, "target.base")
            cmd = ["cargo", "kani", "-Z", "stubbing", "-Z", "unstable-options", "-Z", "function-contracts",
                   "--only-codegen", "--harness", "__no_such_harness__", "--target-dir", base,
                   "--no-overflow-checks", "--no-memory-safety-checks"]
            rc, to, wall = run_capped(cmd, sc.repo, 900, logs + "/_prebuild.log")
            txt = open(logs + "/_prebuild.log", errors="replace").read()
            if "error: could not compile" in txt or re.search(r"^error(\[E\d+\])?:", txt, re.M):
                m = re.search(r"^(error(\[E\d+\])?:.*(?:\n.*){0,6})", txt, re.M)
                log("INCONCLUSIVE property=%s harness=* reason=crate+harnesses do not compile under kani:\n%s"
                    % (prop, m.group(1) if m else txt[-2000:]))
                write_evidence(prop, a, seed, [], [], sel, t_start, sc, note="compile failure")
                return 2
            log("[%s] prebuild %.0fs" % (prop, wall))
        jobs = max(1, min(a.jobs, len(sel))) if sel else 1
        slots = list(range(jobs))
        with cf.ThreadPoolExecutor(max_workers=jobs) as ex:
            def work(h):
                slot = slots.pop()
                try:
                    return run_harness(h, sc, slot, logs)
                finally:
                    slots.append(slot)
            futs = {ex.submit(work, h): h for h in sel}
            aux_f = [ex.submit(fn, sc, a.tier, outdir) for fn in aux]
            for f in cf.as_completed(list(futs) + aux_f):
                if f in futs:
                    r = f.result()
                    results.append(r)
                    log("  %-46s %-12s %6.1fs solver=%.1fs q=%d %s" % (
                        r["id"], r["status"], r["wall_s"], r["solver_s"], r["queries"], r["reason"][:150]))
                else:
                    r = f.result()
                    aux_results.append(r)
                    log("  aux:%-42s %-12s %6.1fs q=%d %s" % (
                        r["id"], r["status"], r["wall_s"], r.get("queries", 0), r.get("reason", "")[:150]))

        # ---- interpret ------------------------------------------------------------------
        byid = {h["id"]: h for h in sel}
        violations = []
        inconclusive = []
        known_lines = []
        also_failed = []
        undecided = []
        for r in results:
            h = byid[r["id"]]
            if h["expect"] == "fail":
                kf = kf_by_witness.get(h["id"])
                if kf is None:
                    # a vacuity twin: must FAIL
                    if r["status"] != "FAIL":
                        inconclusive.append((r, "expected-failure twin did not fail: %s" % r["status"]))
                    continue
                if r["status"] == "FAIL":
                    extra = ""
                    if r.get("playback") is not None and a.tier == "thorough":
                        tests = [t for t in (r.get("playback") or [])]
                        if tests:
                            rep, detail, case = native_replay(h, tests[:2], [c["desc"] for c in r["failed"]], sc, h["id"])
                            extra = "; native replay of the witness: %s" % ("REPRODUCED" if rep else "NOT reproduced: " + "; ".join(detail)[:300])
                    known_lines.append("KNOWN-FINDING: property=%s %s [%s; witness harness %s: %s%s]" % (
                        prop, kf["what"], kf["id"], h["id"], r["reason"], extra))
                elif r["status"] == "PASS":
                    log("note: known finding %s no longer reproduces (witness harness %s passes)" % (kf["id"], h["id"]))
                else:
                    log("note: witness harness %s for known finding %s inconclusive: %s" % (h["id"], kf["id"], r["reason"]))
                continue
            if r["status"] == "FAIL" and any(".assigns." in c["name"] or "is assignable" in c["desc"] for c in r["failed"]):
                # frame-condition failure (C14): CBMC's assigns-clause instrumentation found a write outside
                # {rng, locals} in the call tree of sample().  There is nothing to replay natively (a hidden write
                # need not change any single output); the instrumentation is a sound over-approximation of "sample()
                # writes state other than the RNG", which is the violation itself.
                rdir_out = os.path.join(os.environ.get("VERIF_OUT", os.path.join(VERIF, "out")), "replay", prop)
                os.makedirs(rdir_out, exist_ok=True)
                cp = os.path.join(rdir_out, h["id"] + ".json")
                json.dump({"property": prop, "aux": h["id"], "detail": {"kind": "frame condition violated", "writes_outside_frame": r["failed"]}},
                          open(cp, "w"), indent=1)
                r["replay_detail"] = ["write outside the frame: %s at %s" % (c["desc"], c["loc"]) for c in r["failed"][:5]]
                violations.append((r, cp))
                continue
            if r["status"] == "FAIL":
                tests = r.get("playback") or []
                if violations and not os.environ.get("VERIF_REPLAY_ALL"):
                    # one natively confirmed violation decides the exit code; further solver counterexamples are
                    # listed but not replayed (each replay costs two test-profile builds)
                    also_failed.append(r)
                    continue
                if not tests:
                    inconclusive.append((r, "counterexample without playback test"))
                    continue
                rep, detail, case = native_replay(h, tests[:3], [c["desc"] for c in r["failed"]], sc, h["id"])
                r["replay_detail"] = detail
                if rep:
                    rdir_out = os.path.join(os.environ.get("VERIF_OUT", os.path.join(VERIF, "out")), "replay", prop)
                    os.makedirs(rdir_out, exist_ok=True)
                    cp = os.path.join(rdir_out, h["id"] + ".json")
                    case["property"] = prop
                    json.dump(case, open(cp, "w"), indent=1)
                    violations.append((r, cp))
                else:
                    inconclusive.append((r, "counterexample did not reproduce natively: %s" % "; ".join(detail)[:600]))
            elif r["status"] == "INCONCLUSIVE":
                if h.get("besteffort", "").startswith("y") and any(k in r["reason"] for k in (
                        "timeout", "memory", "verdict FAILED without failed check", "undetermined checks", "no verdict",
                        "solver error")):
                    # a best-effort deep harness that did not finish within its cap: reported as undecided in the
                    # evidence; it is not a pass and not counted, but it does not make the whole check inconclusive
                    undecided.append((r, r["reason"]))
                else:
                    inconclusive.append((r, r["reason"]))
        for r in aux_results:
            if r["status"] == "FAIL":
                cp = os.path.join(os.environ.get("VERIF_OUT", os.path.join(VERIF, "out")), "replay", prop, r["id"] + ".json")
                os.makedirs(os.path.dirname(cp), exist_ok=True)
                json.dump({"property": prop, "aux": r["id"], "detail": r.get("detail")}, open(cp, "w"), indent=1)
                violations.append((r, cp))
            elif r["status"] == "INCONCLUSIVE":
                inconclusive.append((r, r.get("reason", "")))

        for l in known_lines:
            log(l)
        for r, why in inconclusive:
            log("INCONCLUSIVE property=%s harness=%s reason=%s" % (prop, r["id"], why))
        for r, why in undecided:
            log("UNDECIDED (best-effort harness, not counted) property=%s harness=%s reason=%s" % (prop, r["id"], why))
        for r in also_failed:
            log("  also refuted by the solver (not replayed): harness=%s: %s" % (r["id"], r["reason"]))
        for r, cp in violations:
            log("VIOLATION property=%s replay=%s" % (prop, cp))
            log("  harness=%s failed: %s" % (r["id"], r.get("reason", "")))
            for d in r.get("replay_detail", []):
                log("    " + d)
        if not a.no_evidence and not a.only:
            # (a partial run selected with --only never overwrites the property's evidence file)
            write_evidence(prop, a, seed, results, aux_results, sel, t_start, sc,
                           violations=len(violations), inconclusive=[(r["id"], w) for r, w in inconclusive],
                           known=known_lines, undecided=[(r["id"], w) for r, w in undecided])
    if violations:
        return 1
    if inconclusive:
        return 2
    n_pass = len([r for r in results if r["status"] == "PASS"])
    n_kf = len([r for r in results if r["status"] == "FAIL"])
    log("[%s] OK: %d harnesses passed, %d known-finding witnesses failed as recorded, %d best-effort harnesses undecided, "
        "%d aux checks passed in %.0fs" % (prop, n_pass, n_kf, len(results) - n_pass - n_kf, len(aux_results), time.time() - t_start))
    return 0


def write_evidence(prop, a, seed, results, aux_results, sel, t_start, sc, violations=0, inconclusive=(),
                   known=(), note="", undecided=()):
    byid = {h["id"]: h for h in sel}
    passed = [r for r in results if r["status"] == "PASS"]
    queries = sum(r["queries"] for r in results) + sum(r.get("queries", 0) for r in aux_results)
    n_checks = sum(r["n_checks"] for r in results) + sum(r.get("obligations", 0) for r in aux_results)
    samples = []
    for r in sorted(results, key=lambda r: r["id"]):
        h = byid[r["id"]]
        samples.append({"harness": r["id"], "verdict": r["status"], "expect": h["expect"],
                        "functions_encoded": h.get("funcs", ""), "bounds": h.get("bounds", ""),
                        "assumptions": h.get("assumes", ""), "stubs_applied": r["stubs"],
                        "cbmc_properties": r["n_checks"], "cover_witnesses": r["n_cover"],
                        "solver_queries": r["queries"], "solver_s": r["solver_s"], "wall_s": r["wall_s"],
                        "sat_vars": r["vars"], "sat_clauses": r["clauses"], "reason": r["reason"]})
    for r in aux_results:
        samples.append({k: v for k, v in r.items() if k != "detail_full"})
    distinct = len(passed) + sum(r.get("distinct", 0) for r in aux_results if r["status"] == "PASS")
    assumptions = sorted({s.strip() for h in sel for s in h.get("assumes", "").split(";") if s.strip()})
    assumptions += ["trusted: rustc->MIR, Kani MIR->goto, CBMC 6.11, CaDiCaL/z3/cvc5, libm contracts in harness/support.rs"]
    ev = {
        "property_id": prop,
        "tier": a.tier,
        "seed": seed,
        "level": "model_checking",
        "coverage": {
            "evaluations": max(queries, 0),
            "distinct_nontrivial": distinct,
            "rule": "evaluations = SAT/SMT queries discharged by the back-end solvers in this run; "
                    "distinct_nontrivial = harnesses (plus aux obligations groups) whose verdict was UNSAT for every "
                    "assertion AND whose kani::cover! vacuity witnesses were all SATISFIED; each harness encodes the "
                    "functions listed under samples[].functions_encoded from the current working tree",
            "samples": samples,
            "cbmc_properties_checked": n_checks,
            "harnesses_selected": len(sel),
            "harnesses_passed": len(passed),
            "harnesses_failed_expected": len([r for r in results if r["status"] == "FAIL" and byid[r["id"]]["expect"] == "fail"]),
            "inconclusive": [list(x) for x in inconclusive],
            "undecided_best_effort": [list(x) for x in undecided],
            "known_findings_reported": list(known),
            "solver_time_s": round(sum(r["solver_s"] for r in results) + sum(r.get("solver_s", 0) for r in aux_results), 1),
            "pristine_tree_scan": sc.pristine,
            "exhaustive": False,
            "note": note,
        },
        "assumptions": assumptions,
        "wall_s": round(time.time() - t_start, 1),
        "violations": violations,
    }
    os.makedirs(os.path.join(VERIF, "evidence"), exist_ok=True)
    json.dump(ev, open(os.path.join(VERIF, "evidence", prop + ".json"), "w"), indent=1)


def do_replay_file(path, hs):
    case = json.load(open(path))
    if "aux" in case:
        log("aux case: re-run `vcheck %s` (solver query over the current tree); stored detail:" % case["property"])
        log(json.dumps(case.get("detail"), indent=1)[:4000])
        return 0
    h = [x for x in hs if x["id"] == case["harness"]]
    if not h:
        log("unknown harness %s" % case["harness"])
        return 2
    h = h[0]
    tests = [("assertion", d, t) for d, t in zip(case["solver_failed_checks"] + ["?"] * 10, case["tests"])]
    with Scratch() as sc:
        rep, detail, _ = native_replay(h, tests, case["solver_failed_checks"], sc, "manual")
    for d in detail:
        log(d)
    log("REPRODUCED" if rep else "NOT-REPRODUCED")
    return 1 if rep else 0
