"""auxiliary (non-Kani) solver checks, keyed by property id; each fn(scratch, tier, outdir) -> result dict"""
AUX = {}
