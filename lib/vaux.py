"""auxiliary (non-Kani) solver checks, keyed by property id; each fn(scratch, tier, outdir) -> result dict
with keys id, status (PASS/FAIL/INCONCLUSIVE), reason, wall_s, queries, obligations, distinct, solver_s"""
import os
import sys

VERIF = os.path.dirname(os.path.dirname(os.path.abspath(__file__)))
sys.path.insert(0, os.path.join(VERIF, "smt"))


def c06_tables(scratch, tier, outdir):
    import zigtables
    r = zigtables.check(scratch.repo)
    r["id"] = "c06_tables_smt"
    r["functions_encoded"] = "constants ZIG_NORM_X/F/R, ZIG_EXP_X/F/R (src/ziggurat_tables.rs), NORM_V/EXP_V (utils/ziggurat_tables.py)"
    r["bounds"] = "all 4 x 257 entries + 2 tail constants (finite, exhaustive); tolerances 1e-14 (density), 1e-8 relative (areas)"
    r["distinct"] = r.get("discharged", 0) if r["status"] == "PASS" else 0
    r["detail"] = r.get("detail")
    return r


def c14_pristine(scratch, tier, outdir):
    """premise of the C14 frame argument: the pristine tree has forbid(unsafe_code) and no interior-mutability /
    mutable-static site at all.  Syntactic (not a solver query): a hit makes C14 inconclusive, never a violation."""
    import time
    t0 = time.time()
    pr = scratch.pristine
    bad = list(pr.get("mutable_state_sites", []))
    if not pr.get("forbid_unsafe", False):
        bad.append("src/lib.rs: #![forbid(unsafe_code)] is missing")
    r = {"id": "c14_pristine_scan", "wall_s": round(time.time() - t0, 2), "queries": 0, "obligations": 1,
         "functions_encoded": "all files under src/ (text scan for unsafe, static mut, Cell, RefCell, Atomic*, thread_local, Once*, Mutex, RwLock, LazyLock)",
         "bounds": "syntactic premise check, not a solver query", "distinct": 0, "solver_s": 0}
    if bad:
        r.update(status="INCONCLUSIVE", reason="mutable-state sites in the tree: the frame argument of C14 does not cover them: %s" % "; ".join(bad[:5]))
    else:
        r.update(status="PASS", reason="")
    return r


AUX = {"C06": [c06_tables], "C14": [c14_pristine]}
