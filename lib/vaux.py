"""auxiliary (non-Kani) solver checks, keyed by property id; each fn(scratch, tier, outdir) -> result dict
with keys id, status (PASS/FAIL/INCONCLUSIVE), reason, wall_s, queries, obligations, distinct, solver_s"""
import os
import sys

VERIF = os.path.dirname(os.path.dirname(os.path.abspath(__file__)))
sys.path.insert(0, os.path.join(VERIF, "smt"))


def c06_tables(scratch, tier, outdir):
    import zigtables
    r = zigtables.check(scratch.repo)
    r["id"] = "c06_tables_smt"
    r["functions_encoded"] = "constants ZIG_NORM_X/F/R, ZIG_EXP_X/F/R (src/ziggurat_tables.rs), NORM_V/EXP_V (utils/ziggurat_tables.py)"
    r["bounds"] = "all 4 x 257 entries + 2 tail constants (finite, exhaustive); tolerances 1e-14 (density), 1e-8 relative (areas)"
    r["distinct"] = r.get("discharged", 0) if r["status"] == "PASS" else 0
    r["detail"] = r.get("detail")
    return r


AUX = {"C06": [c06_tables]}
