// Harnesses for src/weighted/weighted_alias.rs (C08; constructor part of C04)
#[allow(unused_imports)]
use std::{vec, vec::Vec};
use super::*;
use crate::__verif_support::*;
use crate::weighted::Error as WErr;

pub(crate) trait AW: AliasableWeight + kani::Arbitrary + core::fmt::Debug {
    const MAXW: i128;
    fn wide(self) -> i128;
}
macro_rules! impl_aw {
    ($($t:ty),*) => {$(
        impl AW for $t {
            const MAXW: i128 = <$t>::MAX as i128;
            #[inline(always)] fn wide(self) -> i128 { self as i128 }
        }
    )*};
}
impl_aw!(u8, i8, u16, i16, u32, i32, u64, i64);

fn mk_vec<W: AW, const L: usize>(ws: &[W; L]) -> Vec<W> {
    let mut v: Vec<W> = Vec::with_capacity(L);
    let mut i = 0;
    while i < L {
        v.push(ws[i]);
        i += 1;
    }
    v
}

/// new() on an arbitrary weight vector of length L: documented outcome; on Ok the alias table carries
/// exactly L*w_i units of mass for index i (so the law is w_i / sum, exactly), weights() gives the
/// vector back, and sample() follows "column c keeps itself iff threshold < odds[c], else alias[c]".
/// outcome mask: 1 Ok, 2 InvalidWeight, 4 InsufficientNonZero
fn h_alias<W: AW, const L: usize>(with_sample: bool) -> u8 {
    let ws: [W; L] = kani::any();
    let r = WeightedAliasIndex::<W>::new(mk_vec(&ws));
    let lim = W::MAXW / (L as i128);
    let mut sum = 0i128;
    let mut bad = false;
    let mut i = 0;
    while i < L {
        if ws[i].wide() < 0 || ws[i].wide() > lim {
            bad = true;
        }
        sum += ws[i].wide();
        i += 1;
    }
    match r {
        Err(e) => {
            if bad {
                vassert!(e == WErr::InvalidWeight, "alias new: negative or > MAX/len weight must give InvalidWeight");
                2
            } else {
                vassert!(sum == 0, "alias new: error although the weight vector is valid");
                vassert!(e == WErr::InsufficientNonZero, "alias new: all-zero weights must give InsufficientNonZero");
                4
            }
        }
        Ok(d) => {
            vassert!(!bad, "alias new: accepted a negative or > MAX/len weight");
            vassert!(sum > 0, "alias new: accepted an all-zero weight vector");
            vassert!(d.weight_sum.wide() == sum, "alias: weight_sum differs from the sum of the weights");
            vassert!(d.aliases.len() == L && d.no_alias_odds.len() == L, "alias: table length differs from the number of weights");
            let mut i = 0;
            while i < L {
                let oi = d.no_alias_odds[i].wide();
                vassert!(oi >= 0 && oi <= sum, "alias: odds outside [0, weight_sum]");
                vassert!(oi == sum || (d.aliases[i] as usize) < L, "alias: alias index out of range for a column that can yield it");
                // mass identity: own odds + what other columns send here == L * w_i
                let mut mass = oi;
                let mut j = 0;
                while j < L {
                    let oj = d.no_alias_odds[j].wide();
                    if oj < sum && d.aliases[j] as usize == i {
                        mass += sum - oj;
                    }
                    j += 1;
                }
                vassert!(mass == (L as i128) * ws[i].wide(), "alias: table mass of an index differs from len * weight (law is not w_i/sum)");
                i += 1;
            }
            if with_sample {
                let words: [u64; NW] = kani::any();
                let mut r1 = SymRng::from_words(words, 2);
                let idx = d.sample(&mut r1);
                vassert!(idx < L, "alias sample: index out of range");
                vassert!(ws[idx].wide() > 0, "alias sample: returned an index of weight zero");
                let mut r2 = SymRng::from_words(words, 2);
                let c = d.uniform_index.sample(&mut r2) as usize;
                let t: W = d.uniform_within_weight_sum.sample(&mut r2);
                vassert!(r1.pos == r2.pos, "alias sample: consumed words beyond the two uniform draws");
                vassert!(c < L && t.wide() >= 0 && t.wide() < sum, "alias sample: column or threshold draw out of range");
                let expect = if t.wide() < d.no_alias_odds[c].wide() { c } else { d.aliases[c] as usize };
                vassert!(idx == expect, "alias sample: result is not `column if threshold < odds[column] else alias[column]`");
            }
            core::mem::forget(d);
            1
        }
    }
}

fn h_alias_weights<W: AW, const L: usize>() -> u8 {
    let ws: [W; L] = kani::any();
    if let Ok(d) = WeightedAliasIndex::<W>::new(mk_vec(&ws)) {
        let back = d.weights();
        vassert!(back.len() == L, "alias weights(): wrong length");
        let mut i = 0;
        while i < L {
            vassert!(back[i].wide() == ws[i].wide(), "alias weights(): does not reconstruct the original integer weights");
            i += 1;
        }
        core::mem::forget(back);
        core::mem::forget(d);
        1
    } else {
        0
    }
}

macro_rules! aproofs {
    ($($name:ident => $unw:expr, $mask:expr, [$($call:expr),*];)*) => {$(
        #[kani::proof]
        #[kani::unwind($unw)]
        fn $name() {
            let mut m = 0u8;
            $( m |= $call; )*
            kani::cover!($mask & 1 == 0 || m & 1 != 0, "Ok outcome reached");
            kani::cover!($mask & 2 == 0 || m & 2 != 0, "InvalidWeight reached");
            kani::cover!($mask & 4 == 0 || m & 4 != 0, "InsufficientNonZero reached");
        }
    )*};
}

//@ id: c08_alias_u8_l1
//@ prop: C08
//@ tier: quick
//@ cap: 900
//@ funcs: WeightedAliasIndex::<u8>::new (validation, small/big lists, pairing loop, leftover fix-up); sample; rand Uniform::<u32>/<u8>::sample
//@ bounds: every u8 weight vector of length 1; every stream whose two uniform draws are accepted at the first word (2 words)
//@ assumes: none beyond the word budget
aproofs! { c08_alias_u8_l1 => 3, 5, [h_alias::<u8, 1>(true)]; }

//@ id: c08_alias_u8_l2
//@ prop: C08
//@ tier: quick
//@ cap: 900
//@ funcs: WeightedAliasIndex::<u8>::new; sample; rand Uniform::<u32>/<u8>::sample
//@ bounds: every u8 weight vector of length 2; every stream whose two uniform draws are accepted at the first word (2 words)
aproofs! { c08_alias_u8_l2 => 4, 7, [h_alias::<u8, 2>(true)]; }

//@ id: c08_alias_u8_l3
//@ besteffort: yes
//@ prop: C08
//@ tier: thorough
//@ cap: 1500
//@ funcs: WeightedAliasIndex::<u8>::new; sample
//@ bounds: every u8 weight vector of length 3; streams with both uniform draws accepted at the first word
aproofs! { c08_alias_u8_l3 => 5, 7, [h_alias::<u8, 3>(true)]; }

//@ id: c08_alias_i8_l3
//@ prop: C08
//@ tier: quick
//@ cap: 1200
//@ funcs: WeightedAliasIndex::<i8>::new
//@ bounds: every i8 weight vector of length 3 (negative weights; MAX/len = 42); table mass identity, no sampling
aproofs! { c08_alias_i8_l3 => 5, 7, [h_alias::<i8, 3>(false)]; }

//@ id: c08_alias_weights_u8_l3
//@ besteffort: yes
//@ prop: C08
//@ tier: thorough
//@ cap: 1500
//@ funcs: WeightedAliasIndex::<u8>::new; weights()
//@ bounds: every u8 weight vector of length 3
aproofs! { c08_alias_weights_u8_l3 => 5, 1, [h_alias_weights::<u8, 3>()]; }

//@ id: c08_alias_weights_u8_l2
//@ prop: C08
//@ tier: quick
//@ cap: 900
//@ funcs: WeightedAliasIndex::<u8>::new; weights()
//@ bounds: every u8 weight vector of length 2
aproofs! { c08_alias_weights_u8_l2 => 4, 1, [h_alias_weights::<u8, 2>()]; }

//@ id: c08_alias_u16_l4
//@ besteffort: yes
//@ prop: C08
//@ tier: thorough
//@ cap: 1500
//@ funcs: WeightedAliasIndex::<u16>::new
//@ bounds: every u16 weight vector of length 4; table mass identity
aproofs! { c08_alias_u16_l4 => 6, 7, [h_alias::<u16, 4>(false)]; }

//@ id: c08_alias_u8_l4
//@ besteffort: yes
//@ prop: C08
//@ tier: thorough
//@ cap: 1500
//@ funcs: WeightedAliasIndex::<u8>::new; sample
//@ bounds: every u8 weight vector of length 4
aproofs! { c08_alias_u8_l4 => 6, 7, [h_alias::<u8, 4>(true)]; }

//@ id: c08_alias_u32_l2
//@ besteffort: yes
//@ prop: C08
//@ tier: thorough
//@ cap: 1500
//@ funcs: WeightedAliasIndex::<u32>::new
//@ bounds: every u32 weight vector of length 2 (len * w near the u32 limit); table mass identity
aproofs! { c08_alias_u32_l2 => 4, 7, [h_alias::<u32, 2>(false)]; }

//@ id: c08_alias_empty
//@ prop: C08
//@ tier: quick
//@ cap: 300
//@ funcs: WeightedAliasIndex::<u8>::new; WeightedAliasIndex::<f32>::new (empty vector)
//@ bounds: the empty vector
#[kani::proof]
#[kani::unwind(4)]
fn c08_alias_empty() {
    let r = WeightedAliasIndex::<u8>::new(Vec::new());
    vassert!(matches!(r, Err(WErr::InvalidInput)), "alias new: empty vector must give InvalidInput");
    let r = WeightedAliasIndex::<f32>::new(Vec::new());
    vassert!(matches!(r, Err(WErr::InvalidInput)), "alias new (f32): empty vector must give InvalidInput");
    kani::cover!(true, "reached");
}


// Float weights (f32/f64) are NOT covered: WeightedAliasIndex::new ends in rand's Uniform::<F>::new, whose
// `new_bounded` loop (decrease scale until scale*max_rand + low <= high) has no bound the solver can prove
// (it needs scale*(1-eps) <= scale for a symbolic scale); harnesses over symbolic float weights ended in an
// unwinding failure / timeout.  The seeded float-only changes (leftover sentinel alias, lossy clone) are
// therefore not detected; see DESIGN.md section 0.7.

// ------------------------------------------------------------------------------------------
// vectors longer than W::MAX (narrow weight types): MAX / len is 0, so every non-zero weight is "greater than
// MAX/len" (InvalidWeight) and an all-zero vector is InsufficientNonZero; the length itself is valid input
// ------------------------------------------------------------------------------------------

//@ id: c08_alias_i8_l128
//@ prop: C08
//@ tier: quick
//@ cap: 900
//@ funcs: WeightedAliasIndex::<i8>::new (validation with len > i8::MAX: try_from_u32_lossy fails, max_weight_size = 0)
//@ bounds: every i8 weight vector of length 128
#[kani::proof]
#[kani::unwind(131)]
fn c08_alias_i8_l128() {
    let ws: [i8; 128] = kani::any();
    let mut allzero = true;
    let mut i = 0;
    while i < 128 {
        if ws[i] != 0 {
            allzero = false;
        }
        i += 1;
    }
    let r = WeightedAliasIndex::<i8>::new(mk_vec(&ws));
    match r {
        Ok(d) => {
            vassert!(false, "alias new: accepted a vector longer than W::MAX with a non-representable length");
            core::mem::forget(d);
        }
        Err(e) => {
            if allzero {
                vassert!(e == WErr::InsufficientNonZero, "alias new: all-zero weights must give InsufficientNonZero (also for len > W::MAX)");
            } else {
                vassert!(e == WErr::InvalidWeight, "alias new: a weight above MAX/len (= 0 for len > W::MAX) or negative must give InvalidWeight");
            }
        }
    }
    kani::cover!(allzero, "all zero");
    kani::cover!(!allzero, "some non-zero weight");
}

//@ id: c08_alias_u8_l33_tail
//@ besteffort: yes
//@ prop: C08
//@ tier: thorough
//@ cap: 1500
//@ funcs: WeightedAliasIndex::<u8>::new (AliasableWeight::sum over more than 32 weights); weights()
//@ bounds: 33 u8 weights: the first 32 zero, the last one any value in 1..=7 (= MAX/33)
#[kani::proof]
#[kani::unwind(36)]
fn c08_alias_u8_l33_tail() {
    let w: u8 = kani::any();
    kani::assume(w >= 1 && w <= 7);
    let mut ws = [0u8; 33];
    ws[32] = w;
    let r = WeightedAliasIndex::<u8>::new(mk_vec(&ws));
    vassert!(r.is_ok(), "alias new: a valid vector whose only non-zero weight is the 33rd was rejected");
    let d = r.unwrap();
    vassert!(d.weight_sum == w, "alias: weight_sum differs from the sum of the weights (tail beyond 32 elements)");
    let back = d.weights();
    vassert!(back.len() == 33 && back[32] == w && back[0] == 0 && back[31] == 0, "alias weights(): does not reconstruct a 33-element vector");
    kani::cover!(w == 7, "largest admissible weight");
    core::mem::forget(back);
    core::mem::forget(d);
}

//@ id: c08_weight_sum_l33_65
//@ prop: C08
//@ tier: quick
//@ cap: 600
//@ funcs: AliasableWeight::sum (u8, u32, i16) as used by WeightedAliasIndex::new for weight_sum; pairwise_sum split above 32 elements
//@ bounds: every vector of 33 u8 weights <= 7, of 65 u32 weights <= 2^20 and of 40 i16 weights in [0, 800] (no overflow of the type)
#[kani::proof]
#[kani::unwind(70)]
fn c08_weight_sum_l33_65() {
    let a: [u8; 33] = kani::any();
    let mut sa = 0u32;
    let mut i = 0;
    while i < 33 { kani::assume(a[i] <= 7); sa += a[i] as u32; i += 1; }
    vassert!(<u8 as AliasableWeight>::sum(&a) as u32 == sa, "AliasableWeight::sum(u8, 33 weights) differs from the sum of the weights");
    let b: [u32; 65] = kani::any();
    let mut sb = 0u64;
    let mut i = 0;
    while i < 65 { kani::assume(b[i] <= (1 << 20)); sb += b[i] as u64; i += 1; }
    vassert!(<u32 as AliasableWeight>::sum(&b) as u64 == sb, "AliasableWeight::sum(u32, 65 weights) differs from the sum of the weights");
    let c: [i16; 40] = kani::any();
    let mut sc = 0i32;
    let mut i = 0;
    while i < 40 { kani::assume(c[i] >= 0 && c[i] <= 800); sc += c[i] as i32; i += 1; }
    vassert!(<i16 as AliasableWeight>::sum(&c) as i32 == sc, "AliasableWeight::sum(i16, 40 weights) differs from the sum of the weights");
    kani::cover!(sa > 100 && sb > 1000, "non-trivial sums");
}
