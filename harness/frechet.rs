// Harnesses for src/frechet.rs
#[allow(unused_imports)]
use std::{vec, vec::Vec};
use super::*;
use crate::__verif_support::*;

fn u1_f64(w: u64) -> bool {
    (w >> 11) == (1u64 << 53) - 1
}
fn u1_f32(w: u64) -> bool {
    ((w as u32) >> 8) == (1u32 << 24) - 1
}

// E: location |x| <= 1e100 / 1e30, scale [1e-100,1e100] / [1e-30,1e30], shape [0.06,1e3] / [0.25,1e3];
// finiteness additionally needs scale * u^(-1/shape) to fit: scale <= 1e30 (f64) / 1e9 (f32)
macro_rules! c03_frechet {
    ($name:ident, $f:ty, $maxloc:expr, $minsc:expr, $maxsc:expr, $minsh:expr, $finsc:expr, $u1:expr, $mode:expr) => {
        vproof! {
            fn $name() {
                let mut rng = SymRng::new(1);
                let loc: $f = kani::any();
                let scale: $f = kani::any();
                let shape: $f = kani::any();
                let u_is_one = $u1(rng.words[0]);
                if $mode == 0 { kani::assume(!u_is_one); } else { kani::assume(u_is_one); }
                if let Ok(d) = Frechet::<$f>::new(loc, scale, shape) {
                    kani::assume(loc.abs() <= $maxloc && scale >= $minsc && scale <= $maxsc
                        && shape >= $minsh && shape <= 1e3);
                    let x: $f = d.sample(&mut rng);
                    vassert!(x == x, "Frechet sample is NaN");
                    vassert!(x >= loc, "Frechet sample below its location (support is x > location)");
                    vassert!(!(scale <= $finsc) || x.is_finite(), "Frechet sample is infinite");
                    vassert!(rng.pos == 1, "Frechet consumes exactly one word");
                    kani::cover!(true, "sample returned");
                }
            }
        }
    };
}
//@ id: c03_frechet_f64
//@ prop: C03
//@ tier: quick
//@ cap: 600
//@ funcs: Frechet::<f64>::new; Frechet::<f64>::sample; rand OpenClosed01::sample::<f64>
//@ bounds: all parameters accepted by new() and in E (finiteness asserted for scale <= 1e30); every 64-bit word
//@ assumes: libm::log, libm::pow by contract; draw != 1.0 (known finding frechet_u1_f64)
c03_frechet!(c03_frechet_f64, f64, 1e100, 1e-100, 1e100, 0.06, 1e30, u1_f64, 0);
//@ id: c03_frechet_f32
//@ prop: C03
//@ tier: quick
//@ cap: 600
//@ funcs: Frechet::<f32>::new; Frechet::<f32>::sample; rand OpenClosed01::sample::<f32>
//@ bounds: all parameters accepted by new() and in E (finiteness asserted for scale <= 1e6); all 2^24 uniform values
//@ assumes: libm::logf, libm::powf by contract; draw != 1.0 (known finding frechet_u1_f32)
c03_frechet!(c03_frechet_f32, f32, 1e30, 1e-30, 1e30, 0.25, 1e6, u1_f32, 0);
//@ id: c03_frechet_f64_kf_u1
//@ prop: C03
//@ tier: quick
//@ cap: 600
//@ expect: fail
//@ funcs: Frechet::<f64>::sample
//@ bounds: the draw equals 1.0
c03_frechet!(c03_frechet_f64_kf_u1, f64, 1e100, 1e-100, 1e100, 0.06, 1e30, u1_f64, 1);
//@ id: c03_frechet_f32_kf_u1
//@ prop: C03
//@ tier: quick
//@ cap: 600
//@ expect: fail
//@ funcs: Frechet::<f32>::sample
//@ bounds: the draw equals 1.0
c03_frechet!(c03_frechet_f32_kf_u1, f32, 1e30, 1e-30, 1e30, 0.25, 1e6, u1_f32, 1);

macro_rules! c04_frechet {
    ($name:ident, $f:ty) => {
        vproof! {
            fn $name() {
                let loc: $f = kani::any();
                let scale: $f = kani::any();
                let shape: $f = kani::any();
                let r = Frechet::<$f>::new(loc, scale, shape);
                let inf = <$f>::INFINITY;
                let conds = [loc.is_infinite() || loc != loc, !(scale > 0.0 && scale < inf), !(shape > 0.0 && shape < inf)];
                let res = match &r {
                    Ok(_) => None,
                    Err(Error::LocationNotFinite) => Some(0),
                    Err(Error::ScaleNotPositive) => Some(1),
                    Err(Error::ShapeNotPositive) => Some(2),
                };
                c04_judge(res, conds);
                // Frechet has no accessors: how the arguments are stored is not part of C04 (a constructor that
                // precomputes other constants must not make this file stop compiling); C07 judges the sampler.
                let _ = &r;
                kani::cover!(res.is_none(), "Ok reachable");
                kani::cover!(res == Some(0), "LocationNotFinite reachable");
                kani::cover!(res == Some(1), "ScaleNotPositive reachable");
                kani::cover!(res == Some(2), "ShapeNotPositive reachable");
            }
        }
    };
}
//@ id: c04_frechet_f64
//@ prop: C04
//@ tier: quick
//@ cap: 300
//@ funcs: Frechet::<f64>::new
//@ bounds: every triple of f64 bit patterns
c04_frechet!(c04_frechet_f64, f64);
//@ id: c04_frechet_f32
//@ prop: C04
//@ tier: quick
//@ cap: 300
//@ funcs: Frechet::<f32>::new
//@ bounds: every triple of f32 bit patterns
c04_frechet!(c04_frechet_f32, f32);

// ---- C07 ----------------------------------------------------------------------------------------
macro_rules! c07_frechet {
    ($name:ident, $f:ty, $oc:ident) => {
        vproof_free! {
            fn $name() {
                let mut rng = SymRng::new(1);
                let w0 = rng.words[0];
                let loc: $f = kani::any();
                let scale: $f = kani::any();
                // shape from a few concrete values: the reciprocal is then a constant the solver can compare
                let sel: u8 = kani::any();
                let (shape, neg_inv): ($f, $f) = match sel & 3 { 0 => (2.0, -0.5), 1 => (0.25, -4.0), 2 => (1.0, -1.0), _ => (8.0, -0.125) };
                let d = match Frechet::<$f>::new(loc, scale, shape) { Ok(d) => d, Err(_) => return };
                let x: $f = d.sample(&mut rng);
                vassert!(rng.pos == 1, "Frechet: number of words consumed depends on the parameters");
                let g: f64 = if native() {
                    let mut r2 = SymRng::from_words(rng.words, NW);
                    let z: $f = Frechet::<$f>::new(0.0, 1.0, shape).unwrap().sample(&mut r2);
                    vassert!(rng.pos == r2.pos, "Frechet: number of words consumed depends on the parameters");
                    let want = loc + scale * z;
                    vassert!(x == want || (x != x && want != want), "Frechet: sample is not location + scale * (standard member)");
                    return;
                } else {
                    vassert!(flog_n() == 2, "Frechet: expected one logarithm and one power");
                    let (a0, _, r0) = flog_get(0);
                    let (b, e, g) = flog_get(1);
                    vassert!(biteq64(b, -r0), "Frechet: base of the power is not -ln(u)");
                    vassert!(e == neg_inv as f64, "Frechet: exponent is not -1/shape");
                    g
                };
                vassert!(biteq64(x as f64, (loc + scale * (g as $f)) as f64), "Frechet: sample is not location + scale * g");
                kani::cover!(g == 2.0, "g = 2");
            }
        }
    };
}
//@ id: c07_frechet_f64
//@ prop: C07
//@ tier: quick
//@ cap: 900
//@ funcs: Frechet::<f64>::new; Frechet::<f64>::sample
//@ bounds: every accepted (location, scale), shape in {1/4, 1, 2, 8}; every word; g = (-ln u)^(-1/shape) over the free-stub value set
//@ assumes: libm::log, libm::pow replaced by free logging stubs (algebraic structure only)
c07_frechet!(c07_frechet_f64, f64, oc01_64);
//@ id: c07_frechet_f32
//@ prop: C07
//@ tier: quick
//@ cap: 900
//@ funcs: Frechet::<f32>::new; Frechet::<f32>::sample
//@ bounds: as c07_frechet_f64
//@ assumes: libm::logf, libm::powf replaced by free logging stubs
c07_frechet!(c07_frechet_f32, f32, oc01_32);
