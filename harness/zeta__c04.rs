// Harnesses for src/zeta.rs that read private fields (kept apart so that a refactoring of the
// private representation makes only these inconclusive)
#[allow(unused_imports)]
use std::{vec, vec::Vec};
use super::*;
use crate::__verif_support::*;

macro_rules! c04_zeta {
    ($name:ident, $f:ty) => {
        vproof! {
            fn $name() {
                let s: $f = kani::any();
                let r = Zeta::<$f>::new(s);
                let conds = [s <= 1.0 || s != s];
                let res = match &r { Ok(_) => None, Err(Error::STooSmall) => Some(0) };
                c04_judge(res, conds);
                if let Ok(d) = r {
                    vassert!(d.s_minus_1 == s - 1.0, "Zeta::new: s_minus_1 != s - 1");
                    vassert!(d.b >= 1.0, "Zeta::new: b = 2^(s-1) below 1 or NaN");
                }
                kani::cover!(res.is_none(), "Ok reachable");
                kani::cover!(res == Some(0), "STooSmall reachable");
            }
        }
    };
}
//@ id: c04_zeta_f64
//@ prop: C04
//@ tier: quick
//@ cap: 300
//@ funcs: Zeta::<f64>::new
//@ bounds: every f64 bit pattern
//@ assumes: libm::pow by contract
c04_zeta!(c04_zeta_f64, f64);
//@ id: c04_zeta_f32
//@ prop: C04
//@ tier: quick
//@ cap: 300
//@ funcs: Zeta::<f32>::new
//@ bounds: every f32 bit pattern
//@ assumes: libm::powf by contract
c04_zeta!(c04_zeta_f32, f32);

