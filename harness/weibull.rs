// Harnesses for src/weibull.rs
#[allow(unused_imports)]
use std::{vec, vec::Vec};
use super::*;
use crate::__verif_support::*;

macro_rules! c03_weibull {
    ($name:ident, $f:ty, $minsc:expr, $maxsc:expr, $minsh:expr) => {
        vproof! {
            fn $name() {
                let mut rng = SymRng::new(1);
                let scale: $f = kani::any();
                let shape: $f = kani::any();
                if let Ok(d) = Weibull::<$f>::new(scale, shape) {
                    kani::assume(scale >= $minsc && scale <= $maxsc && shape >= $minsh && shape <= 1e3);
                    let x: $f = d.sample(&mut rng);
                    vassert!(x == x, "Weibull sample is NaN");
                    vassert!(x >= 0.0, "Weibull sample is negative");
                    vassert!(x.is_finite(), "Weibull sample is infinite");
                    vassert!(rng.pos == 1, "Weibull consumes exactly one word");
                    kani::cover!(true, "sample returned");
                }
            }
        }
    };
}
//@ id: c03_weibull_f64
//@ prop: C03
//@ tier: quick
//@ cap: 600
//@ funcs: Weibull::<f64>::new; Weibull::<f64>::sample; rand OpenClosed01::sample::<f64>
//@ bounds: all (scale, shape) accepted by new() and in E; every 64-bit word (draw == 1.0 included)
//@ assumes: libm::log, libm::pow by contract
c03_weibull!(c03_weibull_f64, f64, 1e-100, 1e100, 0.06);
//@ id: c03_weibull_f32
//@ prop: C03
//@ tier: quick
//@ cap: 600
//@ funcs: Weibull::<f32>::new; Weibull::<f32>::sample; rand OpenClosed01::sample::<f32>
//@ bounds: all (scale, shape) accepted by new() and in E; all 2^24 uniform values
//@ assumes: libm::logf, libm::powf by contract
c03_weibull!(c03_weibull_f32, f32, 1e-30, 1e30, 0.25);

macro_rules! c04_weibull {
    ($name:ident, $f:ty) => {
        vproof! {
            fn $name() {
                let scale: $f = kani::any();
                let shape: $f = kani::any();
                let r = Weibull::<$f>::new(scale, shape);
                // documented: ScaleTooSmall `scale <= 0` or nan; ShapeTooSmall `shape <= 0` or nan
                let conds = [scale <= 0.0 || scale != scale, shape <= 0.0 || shape != shape];
                let res = match &r {
                    Ok(_) => None,
                    Err(Error::ScaleTooSmall) => Some(0),
                    Err(Error::ShapeTooSmall) => Some(1),
                };
                c04_judge(res, conds);
                if let Ok(d) = r {
                    vassert!(d.scale.to_bits() == scale.to_bits(), "Weibull::new does not store scale");
                    // C07 state: inv_shape is the documented reciprocal 1/shape
                    vassert!(d.inv_shape > 0.0 || (shape == <$f>::INFINITY && d.inv_shape == 0.0), "Weibull inv_shape has the wrong sign/class");
                }
                kani::cover!(res.is_none(), "Ok reachable");
                kani::cover!(res == Some(0), "ScaleTooSmall reachable");
                kani::cover!(res == Some(1), "ShapeTooSmall reachable");
            }
        }
    };
}
fn biteq(a: f64, b: f64) -> bool { biteq64(a, b) }
//@ id: c04_weibull_f64
//@ prop: C04
//@ tier: quick
//@ cap: 300
//@ funcs: Weibull::<f64>::new
//@ bounds: every pair of f64 bit patterns
c04_weibull!(c04_weibull_f64, f64);
//@ id: c04_weibull_f32
//@ prop: C04
//@ tier: quick
//@ cap: 300
//@ funcs: Weibull::<f32>::new
//@ bounds: every pair of f32 bit patterns
c04_weibull!(c04_weibull_f32, f32);

// ---- C07 ----------------------------------------------------------------------------------------
macro_rules! c07_weibull {
    ($name:ident, $f:ty, $oc:ident) => {
        vproof_free! {
            fn $name() {
                let mut rng = SymRng::new(1);
                let w0 = rng.words[0];
                let scale: $f = kani::any();
                let sel: u8 = kani::any();
                let (shape, inv): ($f, $f) = match sel & 3 { 0 => (2.0, 0.5), 1 => (0.25, 4.0), 2 => (1.0, 1.0), _ => (8.0, 0.125) };
                let d = match Weibull::<$f>::new(scale, shape) { Ok(d) => d, Err(_) => return };
                vassert!(d.inv_shape == inv, "Weibull: inv_shape is not 1/shape");
                let x: $f = d.sample(&mut rng);
                vassert!(rng.pos == 1, "Weibull: number of words consumed depends on the parameters");
                let g: f64 = if native() {
                    let mut r2 = SymRng::from_words(rng.words, NW);
                    let z: $f = Weibull::<$f>::new(1.0, shape).unwrap().sample(&mut r2);
                    vassert!(rng.pos == r2.pos, "Weibull: number of words consumed depends on the parameters");
                    let want = scale * z;
                    vassert!(x == want || (x != x && want != want), "Weibull: sample is not scale * (standard member)");
                    return;
                } else {
                    vassert!(flog_n() == 2, "Weibull: expected one logarithm and one power");
                    let (a0, _, r0) = flog_get(0);
                    let (b, e, g) = flog_get(1);
                    vassert!(biteq64(b, -r0), "Weibull: base of the power is not -ln(u)");
                    vassert!(e == inv as f64, "Weibull: exponent is not 1/shape");
                    g
                };
                vassert!(biteq64(x as f64, (scale * (g as $f)) as f64), "Weibull: sample is not scale * g");
                kani::cover!(g == 2.0, "g = 2");
            }
        }
    };
}
//@ id: c07_weibull_f64
//@ prop: C07
//@ tier: quick
//@ cap: 900
//@ funcs: Weibull::<f64>::new (inv_shape); Weibull::<f64>::sample
//@ bounds: every accepted scale, shape in {1/4, 1, 2, 8}; every word; g over the free-stub value set
//@ assumes: libm::log, libm::pow replaced by free logging stubs
c07_weibull!(c07_weibull_f64, f64, oc01_64);
//@ id: c07_weibull_f32
//@ prop: C07
//@ tier: quick
//@ cap: 900
//@ funcs: Weibull::<f32>::new; Weibull::<f32>::sample
//@ bounds: as c07_weibull_f64
//@ assumes: libm::logf, libm::powf replaced by free logging stubs
c07_weibull!(c07_weibull_f32, f32, oc01_32);
