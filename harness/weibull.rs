// Harnesses for src/weibull.rs
#[allow(unused_imports)]
use std::{vec, vec::Vec};
use super::*;
use crate::__verif_support::*;

macro_rules! c03_weibull {
    ($name:ident, $f:ty, $minsc:expr, $maxsc:expr, $minsh:expr) => {
        vproof! {
            fn $name() {
                let mut rng = SymRng::new(1);
                let scale: $f = kani::any();
                let shape: $f = kani::any();
                if let Ok(d) = Weibull::<$f>::new(scale, shape) {
                    kani::assume(scale >= $minsc && scale <= $maxsc && shape >= $minsh && shape <= 1e3);
                    let x: $f = d.sample(&mut rng);
                    vassert!(x == x, "Weibull sample is NaN");
                    vassert!(x >= 0.0, "Weibull sample is negative");
                    vassert!(x.is_finite(), "Weibull sample is infinite");
                    vassert!(rng.pos == 1, "Weibull consumes exactly one word");
                    kani::cover!(true, "sample returned");
                }
            }
        }
    };
}
//@ id: c03_weibull_f64
//@ prop: C03
//@ tier: quick
//@ cap: 600
//@ funcs: Weibull::<f64>::new; Weibull::<f64>::sample; rand OpenClosed01::sample::<f64>
//@ bounds: all (scale, shape) accepted by new() and in E; every 64-bit word (draw == 1.0 included)
//@ assumes: libm::log, libm::pow by contract
c03_weibull!(c03_weibull_f64, f64, 1e-100, 1e100, 0.06);
//@ id: c03_weibull_f32
//@ prop: C03
//@ tier: quick
//@ cap: 600
//@ funcs: Weibull::<f32>::new; Weibull::<f32>::sample; rand OpenClosed01::sample::<f32>
//@ bounds: all (scale, shape) accepted by new() and in E; all 2^24 uniform values
//@ assumes: libm::logf, libm::powf by contract
c03_weibull!(c03_weibull_f32, f32, 1e-30, 1e30, 0.25);

macro_rules! c04_weibull {
    ($name:ident, $f:ty) => {
        vproof! {
            fn $name() {
                let scale: $f = kani::any();
                let shape: $f = kani::any();
                let r = Weibull::<$f>::new(scale, shape);
                // documented: ScaleTooSmall `scale <= 0` or nan; ShapeTooSmall `shape <= 0` or nan
                let conds = [scale <= 0.0 || scale != scale, shape <= 0.0 || shape != shape];
                let res = match &r {
                    Ok(_) => None,
                    Err(Error::ScaleTooSmall) => Some(0),
                    Err(Error::ShapeTooSmall) => Some(1),
                };
                c04_judge(res, conds);
                if let Ok(d) = r {
                    vassert!(d.scale.to_bits() == scale.to_bits(), "Weibull::new does not store scale");
                    // C07 state: inv_shape is the documented reciprocal 1/shape
                    vassert!(d.inv_shape > 0.0 || (shape == <$f>::INFINITY && d.inv_shape == 0.0), "Weibull inv_shape has the wrong sign/class");
                }
                kani::cover!(res.is_none(), "Ok reachable");
                kani::cover!(res == Some(0), "ScaleTooSmall reachable");
                kani::cover!(res == Some(1), "ShapeTooSmall reachable");
            }
        }
    };
}
fn biteq(a: f64, b: f64) -> bool { biteq64(a, b) }
//@ id: c04_weibull_f64
//@ prop: C04
//@ tier: quick
//@ cap: 300
//@ funcs: Weibull::<f64>::new
//@ bounds: every pair of f64 bit patterns
c04_weibull!(c04_weibull_f64, f64);
//@ id: c04_weibull_f32
//@ prop: C04
//@ tier: quick
//@ cap: 300
//@ funcs: Weibull::<f32>::new
//@ bounds: every pair of f32 bit patterns
c04_weibull!(c04_weibull_f32, f32);
