// Harnesses for src/unit_disc.rs
//@@ needs: unit_circle.rs
#[allow(unused_imports)]
use std::{vec, vec::Vec};
use super::*;
use crate::__verif_support::*;
use crate::unit_circle::__verif::{cand32, cand64};

macro_rules! c12_disc {
    ($name:ident, $f:ty, $cand:ident) => {
        vproof! {
            #[kani::unwind(4)]
            fn $name() {
                let mut rng = SymRng::new(4);
                let a = $cand(rng.words[0]);
                let b = $cand(rng.words[1]);
                let a2 = $cand(rng.words[2]);
                let b2 = $cand(rng.words[3]);
                let inside = a.abs() <= 0.5 && b.abs() <= 0.5;
                let outside = a.abs() >= 0.75 && b.abs() >= 0.75;
                let p: [$f; 2] = UnitDisc.sample(&mut rng);
                vassert!(rng.pos % 2 == 0, "UnitDisc: a trial must consume exactly two draws");
                if inside { vassert!(rng.pos == 2, "UnitDisc: candidate inside the disc was not accepted"); }
                if outside { vassert!(rng.pos != 2, "UnitDisc: candidate outside the disc was accepted"); }
                // the returned point is exactly the accepted candidate
                if rng.pos == 2 {
                    vassert!(p[0] == a && p[1] == b, "UnitDisc: returned point is not the accepted candidate");
                } else {
                    vassert!(p[0] == a2 && p[1] == b2, "UnitDisc: returned point is not the accepted (second) candidate");
                }
                kani::cover!(rng.pos == 2 && inside, "accepted inside");
                kani::cover!(rng.pos == 4 && outside, "rejected outside, second trial accepted");
            }
        }
    };
}
//@ id: c12_unit_disc_f32
//@ prop: C12
//@ tier: quick
//@ cap: 900
//@ funcs: UnitDisc::sample::<f32>; rand Uniform::<f32>::new/sample
//@ bounds: every stream, returns within 4 words; acceptance decided in the regions |x|<=1/2 and |x|>=3/4; output is exactly the accepted candidate
c12_disc!(c12_unit_disc_f32, f32, cand32);
//@ id: c12_unit_disc_f64
//@ prop: C12
//@ tier: quick
//@ cap: 1200
//@ funcs: UnitDisc::sample::<f64>; rand Uniform::<f64>::new/sample
//@ bounds: as c12_unit_disc_f32, 52-bit candidates
c12_disc!(c12_unit_disc_f64, f64, cand64);
