// Harnesses for src/fisher_f.rs
#[allow(unused_imports)]
use std::{vec, vec::Vec};
use super::*;
use crate::__verif_support::*;

macro_rules! c04_f {
    ($name:ident, $f:ty) => {
        vproof! {
            fn $name() {
                let m: $f = kani::any();
                let n: $f = kani::any();
                let r = FisherF::<$f>::new(m, n);
                let conds = [0.5 * m <= 0.0 || m != m, 0.5 * n <= 0.0 || n != n];
                let res = match &r { Ok(_) => None, Err(Error::MTooSmall) => Some(0), Err(Error::NTooSmall) => Some(1) };
                c04_judge(res, conds);
                kani::cover!(res.is_none(), "Ok reachable");
                kani::cover!(res == Some(0), "MTooSmall reachable");
                kani::cover!(res == Some(1), "NTooSmall reachable");
            }
        }
    };
}
//@ id: c04_fisher_f_f64
//@ prop: C04
//@ tier: quick
//@ cap: 300
//@ funcs: FisherF::<f64>::new; ChiSquared::new
//@ bounds: every pair of f64 bit patterns
c04_f!(c04_fisher_f_f64, f64);
//@ id: c04_fisher_f_f32
//@ prop: C04
//@ tier: quick
//@ cap: 300
//@ funcs: FisherF::<f32>::new
//@ bounds: every pair of f32 bit patterns
c04_f!(c04_fisher_f_f32, f32);

// ------------------------------------------------------------------------------------------
// C03: F = (chi2_m / chi2_n) * (n / m) is >= 0 and never NaN
// ------------------------------------------------------------------------------------------
macro_rules! c03_fisher {
    ($name:ident, $f:ty) => {
        vproof_zstub! {
            #[kani::unwind(6)]
            fn $name() {
                let mut rng = SymRng::new(4);
                let m: $f = kani::any();
                let n: $f = kani::any();
                let d = match FisherF::<$f>::new(m, n) { Ok(d) => d, Err(_) => return };
                // both chi-squared draws through the shape > 1 Marsaglia-Tsang sampler (2 words per accepted trial)
                kani::assume(m > 2.0 && m <= 1e6 && n > 2.0 && n <= 1e6);
                let x: $f = d.sample(&mut rng);
                vassert!(x == x, "FisherF sample is NaN");
                vassert!(x >= 0.0, "FisherF sample is negative");
                kani::cover!(true, "sample returned");
            }
        }
    };
}
//@ id: c03_fisher_f_f32
//@ besteffort: yes
//@ prop: C03
//@ tier: thorough
//@ cap: 1500
//@ funcs: FisherF::<f32>::new; FisherF::<f32>::sample; ChiSquared::sample; Gamma::sample
//@ bounds: m, n in (2, 1e6]; each chi-squared draw accepted within the 4-word budget
//@ assumes: utils::ziggurat, libm by contract
c03_fisher!(c03_fisher_f_f32, f32);
