// Harnesses for src/fisher_f.rs
#[allow(unused_imports)]
use std::{vec, vec::Vec};
use super::*;
use crate::__verif_support::*;

macro_rules! c04_f {
    ($name:ident, $f:ty) => {
        vproof! {
            fn $name() {
                let m: $f = kani::any();
                let n: $f = kani::any();
                let r = FisherF::<$f>::new(m, n);
                let conds = [0.5 * m <= 0.0 || m != m, 0.5 * n <= 0.0 || n != n];
                let res = match &r { Ok(_) => None, Err(Error::MTooSmall) => Some(0), Err(Error::NTooSmall) => Some(1) };
                c04_judge(res, conds);
                kani::cover!(res.is_none(), "Ok reachable");
                kani::cover!(res == Some(0), "MTooSmall reachable");
                kani::cover!(res == Some(1), "NTooSmall reachable");
            }
        }
    };
}
//@ id: c04_fisher_f_f64
//@ prop: C04
//@ tier: quick
//@ cap: 300
//@ funcs: FisherF::<f64>::new; ChiSquared::new
//@ bounds: every pair of f64 bit patterns
c04_f!(c04_fisher_f_f64, f64);
//@ id: c04_fisher_f_f32
//@ prop: C04
//@ tier: quick
//@ cap: 300
//@ funcs: FisherF::<f32>::new
//@ bounds: every pair of f32 bit patterns
c04_f!(c04_fisher_f_f32, f32);
