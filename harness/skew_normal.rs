// Harnesses for src/skew_normal.rs
#[allow(unused_imports)]
use std::{vec, vec::Vec};
use super::*;
use crate::__verif_support::*;

macro_rules! c04_sn {
    ($name:ident, $f:ty) => {
        vproof! {
            fn $name() {
                let loc: $f = kani::any();
                let scale: $f = kani::any();
                let shape: $f = kani::any();
                let r = SkewNormal::<$f>::new(loc, scale, shape);
                // ScaleTooSmall: scale not finite or <= 0; BadShape: shape not finite; location unrestricted
                let conds = [!scale.is_finite() || scale <= 0.0, !shape.is_finite()];
                let res = match &r { Ok(_) => None, Err(Error::ScaleTooSmall) => Some(0), Err(Error::BadShape) => Some(1) };
                c04_judge(res, conds);
                if let Ok(d) = r {
                    vassert!(d.location().to_bits() == loc.to_bits() && d.scale().to_bits() == scale.to_bits()
                        && d.shape().to_bits() == shape.to_bits(), "SkewNormal accessors do not report the arguments");
                }
                kani::cover!(res.is_none(), "Ok reachable");
                kani::cover!(res == Some(0), "ScaleTooSmall reachable");
                kani::cover!(res == Some(1), "BadShape reachable");
            }
        }
    };
}
//@ id: c04_skew_normal_f64
//@ prop: C04
//@ tier: quick
//@ cap: 300
//@ funcs: SkewNormal::<f64>::new; location; scale; shape
//@ bounds: every triple of f64 bit patterns
c04_sn!(c04_skew_normal_f64, f64);
//@ id: c04_skew_normal_f32
//@ prop: C04
//@ tier: quick
//@ cap: 300
//@ funcs: SkewNormal::<f32>::new; location; scale; shape
//@ bounds: every triple of f32 bit patterns
c04_sn!(c04_skew_normal_f32, f32);
