// Harnesses for src/skew_normal.rs
#[allow(unused_imports)]
use std::{vec, vec::Vec};
use super::*;
use crate::__verif_support::*;

macro_rules! c04_sn {
    ($name:ident, $f:ty) => {
        vproof! {
            fn $name() {
                let loc: $f = kani::any();
                let scale: $f = kani::any();
                let shape: $f = kani::any();
                let r = SkewNormal::<$f>::new(loc, scale, shape);
                // ScaleTooSmall: scale not finite or <= 0; BadShape: shape not finite; location unrestricted
                let conds = [!scale.is_finite() || scale <= 0.0, !shape.is_finite()];
                let res = match &r { Ok(_) => None, Err(Error::ScaleTooSmall) => Some(0), Err(Error::BadShape) => Some(1) };
                c04_judge(res, conds);
                if let Ok(d) = r {
                    vassert!(d.location().to_bits() == loc.to_bits() && d.scale().to_bits() == scale.to_bits()
                        && d.shape().to_bits() == shape.to_bits(), "SkewNormal accessors do not report the arguments");
                }
                kani::cover!(res.is_none(), "Ok reachable");
                kani::cover!(res == Some(0), "ScaleTooSmall reachable");
                kani::cover!(res == Some(1), "BadShape reachable");
            }
        }
    };
}
//@ id: c04_skew_normal_f64
//@ prop: C04
//@ tier: quick
//@ cap: 300
//@ funcs: SkewNormal::<f64>::new; location; scale; shape
//@ bounds: every triple of f64 bit patterns
c04_sn!(c04_skew_normal_f64, f64);
//@ id: c04_skew_normal_f32
//@ prop: C04
//@ tier: quick
//@ cap: 300
//@ funcs: SkewNormal::<f32>::new; location; scale; shape
//@ bounds: every triple of f32 bit patterns
c04_sn!(c04_skew_normal_f32, f32);

// ------------------------------------------------------------------------------------------
// C03: samples are finite and never NaN; two standard normal draws unless shape == 0
// ------------------------------------------------------------------------------------------
macro_rules! c03_skew {
    ($name:ident, $f:ty, $maxloc:expr, $maxsc:expr) => {
        vproof_zstub! {
            fn $name() {
                let mut rng = SymRng::new(2);
                let loc: $f = kani::any();
                let scale: $f = kani::any();
                let shape: $f = kani::any();
                let d = match SkewNormal::<$f>::new(loc, scale, shape) { Ok(d) => d, Err(_) => return };
                kani::assume(loc.abs() <= $maxloc && scale <= $maxsc && scale >= 1e-30 && shape.abs() <= 1e6);
                let x: $f = d.sample(&mut rng);
                vassert!(x == x, "SkewNormal sample is NaN");
                vassert!(x.is_finite(), "SkewNormal sample is infinite");
                vassert!(rng.pos == if shape == 0.0 { 1 } else { 2 }, "SkewNormal: one standard draw for shape 0, two otherwise");
                kani::cover!(shape == 0.0, "shape 0");
                kani::cover!(shape == 1.0, "shape 1");
                kani::cover!(shape == -1.0, "shape -1");
                kani::cover!(shape > 1.0, "general shape");
            }
        }
    };
}
//@ id: c03_skew_normal_f64
//@ prop: C03
//@ tier: quick
//@ cap: 900
//@ funcs: SkewNormal::<f64>::new; SkewNormal::<f64>::sample (shape 0 / +-1 / general branches)
//@ bounds: |location| <= 1e100, scale in [1e-30, 1e100], |shape| <= 1e6
//@ assumes: utils::ziggurat, libm::sqrt by contract
c03_skew!(c03_skew_normal_f64, f64, 1e100, 1e100);
//@ id: c03_skew_normal_f32
//@ prop: C03
//@ tier: quick
//@ cap: 900
//@ funcs: SkewNormal::<f32>::new; SkewNormal::<f32>::sample
//@ bounds: |location| <= 1e30, scale in [1e-30, 1e30], |shape| <= 1e6
//@ assumes: utils::ziggurat, libm::sqrtf by contract
c03_skew!(c03_skew_normal_f32, f32, 1e30, 1e30);
