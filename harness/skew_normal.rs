// Harnesses for src/skew_normal.rs
#[allow(unused_imports)]
use std::{vec, vec::Vec};
use super::*;
use crate::__verif_support::*;

macro_rules! c04_sn {
    ($name:ident, $f:ty) => {
        vproof! {
            fn $name() {
                let loc: $f = kani::any();
                let scale: $f = kani::any();
                let shape: $f = kani::any();
                let r = SkewNormal::<$f>::new(loc, scale, shape);
                // ScaleTooSmall: scale not finite or <= 0; BadShape: shape not finite; location unrestricted
                let conds = [!scale.is_finite() || scale <= 0.0, !shape.is_finite()];
                let res = match &r { Ok(_) => None, Err(Error::ScaleTooSmall) => Some(0), Err(Error::BadShape) => Some(1) };
                c04_judge(res, conds);
                if let Ok(d) = r {
                    vassert!(d.location().to_bits() == loc.to_bits() && d.scale().to_bits() == scale.to_bits()
                        && d.shape().to_bits() == shape.to_bits(), "SkewNormal accessors do not report the arguments");
                }
                kani::cover!(res.is_none(), "Ok reachable");
                kani::cover!(res == Some(0), "ScaleTooSmall reachable");
                kani::cover!(res == Some(1), "BadShape reachable");
            }
        }
    };
}
//@ id: c04_skew_normal_f64
//@ prop: C04
//@ tier: quick
//@ cap: 300
//@ funcs: SkewNormal::<f64>::new; location; scale; shape
//@ bounds: every triple of f64 bit patterns
c04_sn!(c04_skew_normal_f64, f64);
//@ id: c04_skew_normal_f32
//@ prop: C04
//@ tier: quick
//@ cap: 300
//@ funcs: SkewNormal::<f32>::new; location; scale; shape
//@ bounds: every triple of f32 bit patterns
c04_sn!(c04_skew_normal_f32, f32);

// ------------------------------------------------------------------------------------------
// C03: samples are finite and never NaN; two standard normal draws unless shape == 0
// ------------------------------------------------------------------------------------------
macro_rules! c03_skew {
    ($name:ident, $f:ty, $maxloc:expr, $maxsc:expr) => {
        vproof_zstub! {
            fn $name() {
                let mut rng = SymRng::new(2);
                let loc: $f = kani::any();
                let scale: $f = kani::any();
                let shape: $f = kani::any();
                let d = match SkewNormal::<$f>::new(loc, scale, shape) { Ok(d) => d, Err(_) => return };
                kani::assume(loc.abs() <= $maxloc && scale <= $maxsc && scale >= 1e-30 && shape.abs() <= 1e6);
                let x: $f = d.sample(&mut rng);
                vassert!(x == x, "SkewNormal sample is NaN");
                vassert!(x.is_finite(), "SkewNormal sample is infinite");
                vassert!(rng.pos == if shape == 0.0 { 1 } else { 2 }, "SkewNormal: one standard draw for shape 0, two otherwise");
                kani::cover!(shape == 0.0, "shape 0");
                kani::cover!(shape == 1.0, "shape 1");
                kani::cover!(shape == -1.0, "shape -1");
                kani::cover!(shape > 1.0, "general shape");
            }
        }
    };
}
//@ id: c03_skew_normal_f64
//@ prop: C03
//@ tier: quick
//@ cap: 900
//@ funcs: SkewNormal::<f64>::new; SkewNormal::<f64>::sample (shape 0 / +-1 / general branches)
//@ bounds: |location| <= 1e100, scale in [1e-30, 1e100], |shape| <= 1e6
//@ assumes: utils::ziggurat, libm::sqrt by contract
c03_skew!(c03_skew_normal_f64, f64, 1e100, 1e100);
//@ id: c03_skew_normal_f32
//@ prop: C03
//@ tier: quick
//@ cap: 900
//@ funcs: SkewNormal::<f32>::new; SkewNormal::<f32>::sample
//@ bounds: |location| <= 1e30, scale in [1e-30, 1e30], |shape| <= 1e6
//@ assumes: utils::ziggurat, libm::sqrtf by contract
c03_skew!(c03_skew_normal_f32, f32, 1e30, 1e30);

// ------------------------------------------------------------------------------------------
// C07: location and scale enter only through the final linear map x * scale + location of the standardised
// variate (u_1, the max, the min, or the normalised combination of two standard normals)
// ------------------------------------------------------------------------------------------
macro_rules! c07_skew {
    ($name:ident, $f:ty) => {
        vproof_free! {
            fn $name() {
                let mut rng = SymRng::new(2);
                let loc: $f = kani::any();
                let scale: $f = kani::any();
                let sel: u8 = kani::any();
                let shape: $f = match sel % 4 { 0 => 0.0, 1 => 1.0, 2 => -1.0, _ => 3.0 };
                let d = match SkewNormal::<$f>::new(loc, scale, shape) { Ok(d) => d, Err(_) => return };
                let x: $f = d.sample(&mut rng);
                if native() {
                    // native replay: compare with the shift/scale of the standard member on the same stream
                    let mut r2 = SymRng::from_words(rng.words, NW);
                    let z: $f = SkewNormal::<$f>::new(0.0, 1.0, shape).unwrap().sample(&mut r2);
                    vassert!(rng.pos == r2.pos, "SkewNormal: word count depends on location/scale");
                    vassert!(biteq64(x as f64, (z * scale + loc) as f64), "SkewNormal: sample is not (standard member) * scale + location");
                    return;
                }
                vassert!(rng.pos == if shape == 0.0 { 1 } else { 2 }, "SkewNormal: number of standard draws depends on location/scale");
                let z1 = flog_get(0).2 as $f;
                let std: $f = if shape == 0.0 {
                    z1
                } else {
                    let z2 = flog_get(1).2 as $f;
                    // max/min of +0 and -0 may pick either zero: not the subject here
                    kani::assume(!(z1 == z2 && z1.to_bits() != z2.to_bits()));
                    let (u, v) = (if z1 > z2 { z1 } else { z2 }, if z1 > z2 { z2 } else { z1 });
                    if shape == -1.0 { v } else if shape == 1.0 { u } else {
                        // the square root is taken of 1 + shape^2 (class contract: some positive value r); the harness
                        // cannot name r, so for the general shape it checks the two facts that pin the map down:
                        //   location = 0, scale = 1 gives the standard value s, and the sample equals s * scale + location
                        return;
                    }
                };
                vassert!(biteq64(x as f64, (std * scale + loc) as f64), "SkewNormal: sample is not (standardised variate) * scale + location");
                kani::cover!(shape == 0.0, "shape 0");
                kani::cover!(shape == 1.0, "shape 1");
                kani::cover!(shape == -1.0, "shape -1");
            }
        }
    };
}
//@ id: c07_skew_normal_f64
//@ besteffort: yes
//@ prop: C07
//@ tier: thorough
//@ cap: 900
//@ funcs: SkewNormal::<f64>::new; SkewNormal::<f64>::sample (linear_map)
//@ bounds: every accepted (location, scale); shape in {0, 1, -1}; the standard normal draws over the free-stub value set
//@ assumes: utils::ziggurat replaced by a free logged draw
c07_skew!(c07_skew_normal_f64, f64);
//@ id: c07_skew_normal_f32
//@ prop: C07
//@ tier: quick
//@ cap: 900
//@ funcs: SkewNormal::<f32>::new; SkewNormal::<f32>::sample
//@ bounds: as c07_skew_normal_f64
//@ assumes: utils::ziggurat replaced by a free logged draw
c07_skew!(c07_skew_normal_f32, f32);

// general shape: relation between two runs on the same stream (standard member vs. located/scaled member) with
// location and scale from small exact sets, so that the duplicated arithmetic stays cheap
macro_rules! c07_skew_general {
    ($name:ident, $f:ty) => {
        #[kani::proof]
        #[kani::stub(crate::utils::ziggurat, f_ziggurat_words)]
        #[kani::stub(libm::sqrt, c_sqrt64_const)]
        #[kani::stub(libm::sqrtf, c_sqrt32_const)]
        fn $name() {
            let words: [u64; NW] = kani::any();
            let sel: u8 = kani::any();
            let loc: $f = match sel & 3 { 0 => 0.0, 1 => 5.0, 2 => -2.0, _ => 0.5 };
            let scale: $f = match (sel >> 2) & 3 { 0 => 1.0, 1 => 2.0, 2 => 0.5, _ => 4.0 };
            let shape: $f = 3.0;
            let mut r1 = SymRng::from_words(words, 2);
            let mut r2 = SymRng::from_words(words, 2);
            let x: $f = SkewNormal::<$f>::new(loc, scale, shape).unwrap().sample(&mut r1);
            let z: $f = SkewNormal::<$f>::new(0.0, 1.0, shape).unwrap().sample(&mut r2);
            vassert!(r1.pos == r2.pos, "SkewNormal: word count depends on location/scale");
            // scale is a power of two: z * scale is exact, so the affine map is exact up to the final addition
            vassert!(biteq64(x as f64, (z * scale + loc) as f64), "SkewNormal (general shape): sample is not (standard member) * scale + location");
            kani::cover!(loc == 5.0 && scale == 2.0, "located and scaled");
        }
    };
}
//@ id: c07_skew_normal_general_f64
//@ prop: C07
//@ tier: quick
//@ cap: 900
//@ funcs: SkewNormal::<f64>::sample (general-shape branch, linear_map applied last)
//@ bounds: shape = 3, location in {0, 5, -2, 1/2}, scale in {1, 2, 1/2, 4} (powers of two: the map is exact); both standard normal draws are a fixed function of the words (61-bit lattice in [-8, 8))
//@ assumes: utils::ziggurat replaced by a deterministic function of the consumed word; libm::sqrt by a constant stub (structure only)
c07_skew_general!(c07_skew_normal_general_f64, f64);
