// Harnesses for src/zipf.rs
#[allow(unused_imports)]
use std::{vec, vec::Vec};
use super::*;
use crate::__verif_support::*;

macro_rules! c04_zipf {
    ($name:ident, $f:ty) => {
        vproof! {
            fn $name() {
                let n: $f = kani::any();
                let s: $f = kani::any();
                let r = Zipf::<$f>::new(n, s);
                // STooSmall: `s < 0` or nan; NTooSmall: `n < 1` or nan; IllDefined: `n = inf` and `s <= 1`
                let conds = [s < 0.0 || s != s, n < 1.0 || n != n, n == <$f>::INFINITY && s <= 1.0];
                let res = match &r {
                    Ok(_) => None,
                    Err(Error::STooSmall) => Some(0),
                    Err(Error::NTooSmall) => Some(1),
                    Err(Error::IllDefined) => Some(2),
                };
                c04_judge(res, conds);
                if let Ok(d) = r {
                    vassert!(d.s.to_bits() == s.to_bits(), "Zipf::new does not store s");
                }
                kani::cover!(res.is_none() && s == 1.0, "Ok s=1");
                kani::cover!(res.is_none() && s < 1.0, "Ok s<1");
                kani::cover!(res.is_none() && s > 1.0, "Ok s>1");
                kani::cover!(res == Some(0), "STooSmall reachable");
                kani::cover!(res == Some(1), "NTooSmall reachable");
                kani::cover!(res == Some(2), "IllDefined reachable");
            }
        }
    };
}
//@ id: c04_zipf_f64
//@ prop: C04
//@ tier: quick
//@ cap: 600
//@ funcs: Zipf::<f64>::new (incl. debug_assert!(t > 0))
//@ bounds: every pair of f64 bit patterns
//@ assumes: libm::pow, libm::log by contract
c04_zipf!(c04_zipf_f64, f64);
//@ id: c04_zipf_f32
//@ prop: C04
//@ tier: quick
//@ cap: 600
//@ funcs: Zipf::<f32>::new
//@ bounds: every pair of f32 bit patterns
//@ assumes: libm::powf, libm::logf by contract
c04_zipf!(c04_zipf_f32, f32);

// ------------------------------------------------------------------------------------------
// C03: Zipf returns an integer >= 1 (and <= n where that is decided without the accuracy of powf)
// ------------------------------------------------------------------------------------------
macro_rules! c03_zipf {
    ($name:ident, $f:ty, $maxn:expr, $umax:expr, $mode:expr) => {
        vproof! {
            #[kani::unwind(3)]
            fn $name() {
                let n: $f = kani::any();
                let s: $f = kani::any();
                let d = match Zipf::<$f>::new(n, s) { Ok(d) => d, Err(_) => return };
                // n is "the number of elements": integral values only (for fractional n the support is not documented)
                kani::assume(n <= $maxn && s <= 100.0 && n == n.floor());
                let mut rng = SymRng::new(2);
                // region of known finding zipf_n1_umax: n < 2 and the first uniform draw is its maximum
                let kf = n < 2.0 && $umax(rng.words[0]);
                if $mode == 0 { kani::assume(!kf); } else { kani::assume(kf); }
                let x: $f = d.sample(&mut rng);
                vassert!(x == x, "Zipf sample is NaN");
                vassert!(x >= 1.0, "Zipf sample below 1");
                vassert!(x.is_infinite() || x == x.floor(), "Zipf sample is not an integer");
                // n < 2: the support is {1}
                vassert!(!(n < 2.0) || x == 1.0, "Zipf sample exceeds n (n < 2 must always give 1)");
                vassert!(rng.pos == 2, "Zipf: a trial consumes two words");
                kani::cover!(x == 1.0, "x = 1");
                kani::cover!($mode == 1 || x > 1.0, "x > 1");
            }
        }
    };
}
fn umax64(w: u64) -> bool { (w >> 11) == (1u64 << 53) - 1 }
fn umax32(w: u64) -> bool { ((w as u32) >> 8) == (1u32 << 24) - 1 }
//@ id: c03_zipf_f64
//@ prop: C03
//@ tier: quick
//@ cap: 900
//@ funcs: Zipf::<f64>::new; Zipf::<f64>::sample; inv_cdf
//@ bounds: n in [1, 1e15], s in [0, 100]; first trial (2 words)
//@ assumes: libm::{pow,log,exp} by contract; x <= n is asserted only for n < 2 (for larger n it depends on the last-ulp accuracy of powf, outside the contracts); known finding zipf_n1_umax excluded
c03_zipf!(c03_zipf_f64, f64, 1e15, umax64, 0);
//@ id: c03_zipf_f32
//@ prop: C03
//@ tier: quick
//@ cap: 900
//@ funcs: Zipf::<f32>::new; Zipf::<f32>::sample; inv_cdf
//@ bounds: n in [1, 1e7], s in [0, 100]; first trial (2 words), all 2^24 uniform values
//@ assumes: as c03_zipf_f64
c03_zipf!(c03_zipf_f32, f32, 1e7, umax32, 0);
//@ id: c03_zipf_f64_kf_n1
//@ prop: C03
//@ tier: quick
//@ cap: 900
//@ expect: fail
//@ funcs: Zipf::<f64>::sample
//@ bounds: n < 2, first uniform draw = 1 - 2^-53
c03_zipf!(c03_zipf_f64_kf_n1, f64, 1e15, umax64, 1);
//@ id: c03_zipf_f32_kf_n1
//@ prop: C03
//@ tier: quick
//@ cap: 900
//@ expect: fail
//@ funcs: Zipf::<f32>::sample
//@ bounds: n < 2, first uniform draw = 1 - 2^-24
c03_zipf!(c03_zipf_f32_kf_n1, f32, 1e7, umax32, 1);
