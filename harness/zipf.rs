// Harnesses for src/zipf.rs
#[allow(unused_imports)]
use std::{vec, vec::Vec};
use super::*;
use crate::__verif_support::*;

macro_rules! c04_zipf {
    ($name:ident, $f:ty) => {
        vproof! {
            fn $name() {
                let n: $f = kani::any();
                let s: $f = kani::any();
                let r = Zipf::<$f>::new(n, s);
                // STooSmall: `s < 0` or nan; NTooSmall: `n < 1` or nan; IllDefined: `n = inf` and `s <= 1`
                let conds = [s < 0.0 || s != s, n < 1.0 || n != n, n == <$f>::INFINITY && s <= 1.0];
                let res = match &r {
                    Ok(_) => None,
                    Err(Error::STooSmall) => Some(0),
                    Err(Error::NTooSmall) => Some(1),
                    Err(Error::IllDefined) => Some(2),
                };
                c04_judge(res, conds);
                if let Ok(d) = r {
                    vassert!(d.s.to_bits() == s.to_bits(), "Zipf::new does not store s");
                }
                kani::cover!(res.is_none() && s == 1.0, "Ok s=1");
                kani::cover!(res.is_none() && s < 1.0, "Ok s<1");
                kani::cover!(res.is_none() && s > 1.0, "Ok s>1");
                kani::cover!(res == Some(0), "STooSmall reachable");
                kani::cover!(res == Some(1), "NTooSmall reachable");
                kani::cover!(res == Some(2), "IllDefined reachable");
            }
        }
    };
}
//@ id: c04_zipf_f64
//@ prop: C04
//@ tier: quick
//@ cap: 600
//@ funcs: Zipf::<f64>::new (incl. debug_assert!(t > 0))
//@ bounds: every pair of f64 bit patterns
//@ assumes: libm::pow, libm::log by contract
c04_zipf!(c04_zipf_f64, f64);
//@ id: c04_zipf_f32
//@ prop: C04
//@ tier: quick
//@ cap: 600
//@ funcs: Zipf::<f32>::new
//@ bounds: every pair of f32 bit patterns
//@ assumes: libm::powf, libm::logf by contract
c04_zipf!(c04_zipf_f32, f32);

// ------------------------------------------------------------------------------------------
// C03: Zipf returns an integer >= 1 (and <= n where that is decided without the accuracy of powf)
// ------------------------------------------------------------------------------------------
macro_rules! c03_zipf {
    ($name:ident, $f:ty, $maxn:expr, $umax:expr, $mode:expr, $n1:expr) => {
        vproof! {
            #[kani::unwind(3)]
            fn $name() {
                let mut rng = SymRng::new(2); // all symbolic inputs are drawn first (replay alignment)
                let n: $f = if $n1 { 1.0 } else { kani::any() };
                let s: $f = kani::any();
                let d = match Zipf::<$f>::new(n, s) { Ok(d) => d, Err(_) => return };
                // n is "the number of elements": integral values only (for fractional n the support is not documented)
                kani::assume(n <= $maxn && s <= 100.0 && n == n.floor());
                // region of known finding zipf_n1_umax: n < 2 and the first uniform draw is its maximum
                let kf = n < 2.0 && $umax(rng.words[0]);
                if $mode == 0 { kani::assume(!kf); } else { kani::assume(kf); }
                let x: $f = d.sample(&mut rng);
                vassert!(x == x, "Zipf sample is NaN");
                vassert!(x >= 1.0, "Zipf sample below 1");
                vassert!(x.is_infinite() || x == x.floor(), "Zipf sample is not an integer");
                // n < 2: the support is {1}
                vassert!(!(n < 2.0) || x == 1.0, "Zipf sample exceeds n (n < 2 must always give 1)");
                vassert!(rng.pos == 2, "Zipf: a trial consumes two words");
                kani::cover!(x == 1.0, "x = 1");
                kani::cover!($mode == 1 || $n1 || x > 1.0, "x > 1");
            }
        }
    };
}
fn umax64(w: u64) -> bool { (w >> 11) == (1u64 << 53) - 1 }
fn umax32(w: u64) -> bool { ((w as u32) >> 8) == (1u32 << 24) - 1 }
//@ id: c03_zipf_f64
//@ besteffort: yes
//@ prop: C03
//@ tier: thorough
//@ cap: 900
//@ funcs: Zipf::<f64>::new; Zipf::<f64>::sample; inv_cdf
//@ bounds: n in [1, 1e15], s in [0, 100]; first trial (2 words)
//@ assumes: libm::{pow,log,exp} by contract; x <= n is asserted only for n < 2 (for larger n it depends on the last-ulp accuracy of powf, outside the contracts); known finding zipf_n1_umax excluded
c03_zipf!(c03_zipf_f64, f64, 1e15, umax64, 0, false);
//@ id: c03_zipf_f32
//@ besteffort: yes
//@ prop: C03
//@ tier: thorough
//@ cap: 900
//@ funcs: Zipf::<f32>::new; Zipf::<f32>::sample; inv_cdf
//@ bounds: n in [1, 1e7], s in [0, 100]; first trial (2 words), all 2^24 uniform values
//@ assumes: as c03_zipf_f64
c03_zipf!(c03_zipf_f32, f32, 1e7, umax32, 0, false);
//@ id: c03_zipf_f64_kf_n1
//@ prop: C03
//@ tier: thorough
//@ cap: 900
//@ expect: fail
//@ funcs: Zipf::<f64>::sample
//@ bounds: n < 2, first uniform draw = 1 - 2^-53
c03_zipf!(c03_zipf_f64_kf_n1, f64, 1e15, umax64, 1, false);
//@ id: c03_zipf_f32_kf_n1
//@ prop: C03
//@ tier: quick
//@ cap: 900
//@ expect: fail
//@ funcs: Zipf::<f32>::sample
//@ bounds: n < 2, first uniform draw = 1 - 2^-24
c03_zipf!(c03_zipf_f32_kf_n1, f32, 1e7, umax32, 1, false);

// ------------------------------------------------------------------------------------------
// C02: the normalising constant t of the rejection-inversion sampler on each side of the s = 1 switch
//   s == 1:  t = 1 + ln n        s != 1:  t = (n^(1-s) - s) / (1 - s)        s = inf: t = 1
// ------------------------------------------------------------------------------------------
// free stubs restricted to values for which every t above is positive (Zipf::new debug_asserts t > 0)
fn zv() -> f64 { if kani::any() { 1.0 } else { 0.75 } }
fn z_un64(x: f64) -> f64 { flog_with(x, 0.0, zv()) }
fn z_un32(x: f32) -> f32 { flog_with(x as f64, 0.0, zv()) as f32 }
fn z_bin64(x: f64, y: f64) -> f64 { flog_with(x, y, zv()) }
fn z_bin32(x: f32, y: f32) -> f32 { flog_with(x as f64, y as f64, zv()) as f32 }

macro_rules! c02_zipf_t {
    ($name:ident, $f:ty) => {
        #[kani::proof]
        #[kani::stub(libm::log, z_un64)]
        #[kani::stub(libm::logf, z_un32)]
        #[kani::stub(libm::log1p, z_un64)]
        #[kani::stub(libm::log1pf, z_un32)]
        #[kani::stub(libm::pow, z_bin64)]
        #[kani::stub(libm::powf, z_bin32)]
        fn $name() {
            {
                let n: $f = kani::any();
                let sel: u8 = kani::any();
                // s from concrete values on both sides of the switch (the reciprocal 1/(1-s) then folds)
                let (s, q): ($f, $f) = match sel % 5 { 0 => (1.0, 0.0), 1 => (0.5, 2.0), 2 => (2.0, -1.0), 3 => (0.0, 1.0), _ => (3.0, -0.5) };
                let d = match Zipf::<$f>::new(n, s) { Ok(d) => d, Err(_) => return };
                let (a, b, g): (f64, f64, f64) = if native() {
                    let g = if s == 1.0 { num_traits::Float::ln(n) } else { num_traits::Float::powf(n, 1.0 as $f - s) };
                    (n as f64, (1.0 as $f - s) as f64, g as f64)
                } else {
                    vassert!(flog_n() == 1, "Zipf::new: expected exactly one libm call (ln n for s = 1, n^(1-s) otherwise)");
                    flog_get(0)
                };
                vassert!(a == n as f64, "Zipf::new: the logarithm / power is not taken of n");
                if s == 1.0 {
                    vassert!(biteq64(d.t as f64, (1.0 as $f + g as $f) as f64), "Zipf::new (s = 1): t is not 1 + ln(n)");
                } else {
                    vassert!(b == (1.0 as $f - s) as f64, "Zipf::new: the exponent is not 1 - s");
                    vassert!(d.q == q, "Zipf::new: q is not 1/(1-s)");
                    vassert!(biteq64(d.t as f64, ((g as $f - s) * q) as f64), "Zipf::new (s != 1): t is not (n^(1-s) - s)/(1-s)");
                }
                kani::cover!(s == 1.0, "s = 1");
                kani::cover!(s == 0.5, "s < 1");
                kani::cover!(s == 3.0, "s > 1");
            }
        }
    };
}
//@ id: c02_zipf_t_f64
//@ prop: C02
//@ tier: quick
//@ cap: 900
//@ funcs: Zipf::<f64>::new (t and q on both sides of the s = 1 switch)
//@ bounds: every accepted n; s in {0, 1/2, 1, 2, 3}; the libm result in {1, 3/4} (values for which Zipf::new's debug_assert!(t > 0) holds)
//@ assumes: libm::log, libm::pow (and log1p) replaced by free logging stubs (algebraic structure only)
c02_zipf_t!(c02_zipf_t_f64, f64);
//@ id: c02_zipf_t_f32
//@ prop: C02
//@ tier: quick
//@ cap: 900
//@ funcs: Zipf::<f32>::new
//@ bounds: as c02_zipf_t_f64
//@ assumes: libm::logf, libm::powf (and log1pf) replaced by free logging stubs
c02_zipf_t!(c02_zipf_t_f32, f32);


// quick tier: everything except the upper end of the support
macro_rules! c03_zipf_lite {
    ($name:ident, $f:ty, $maxn:expr) => {
        vproof! {
            #[kani::unwind(3)]
            fn $name() {
                let mut rng = SymRng::new(2);
                let n: $f = kani::any();
                let s: $f = kani::any();
                let d = match Zipf::<$f>::new(n, s) { Ok(d) => d, Err(_) => return };
                kani::assume(n <= $maxn && s <= 100.0);
                let x: $f = d.sample(&mut rng);
                vassert!(x == x, "Zipf sample is NaN");
                vassert!(x >= 1.0, "Zipf sample below 1");
                vassert!(rng.pos == 2, "Zipf: a trial consumes two words");
                kani::cover!(x == 1.0, "x = 1");
                kani::cover!(x > 1.0, "x > 1");
            }
        }
    };
}
//@ id: c03_zipf_lite_f64
//@ besteffort: yes
//@ prop: C03
//@ tier: thorough
//@ cap: 900
//@ funcs: Zipf::<f64>::new; Zipf::<f64>::sample; inv_cdf
//@ bounds: n in [1, 1e15], s in [0, 100]; first trial (2 words); asserts non-NaN, >= 1, two words per trial
//@ assumes: libm::{pow,log,exp} by contract; the upper end x <= n is not asserted here (thorough: c03_zipf_f64 for n < 2)
c03_zipf_lite!(c03_zipf_lite_f64, f64, 1e15);
//@ id: c03_zipf_lite_f32
//@ prop: C03
//@ tier: quick
//@ cap: 900
//@ funcs: Zipf::<f32>::new; Zipf::<f32>::sample; inv_cdf
//@ bounds: n in [1, 1e7], s in [0, 100]; first trial (2 words), all 2^24 uniform values
//@ assumes: libm::{powf,logf,expf} by contract
c03_zipf_lite!(c03_zipf_lite_f32, f32, 1e7);
