// Harnesses for src/zipf.rs
#[allow(unused_imports)]
use std::{vec, vec::Vec};
use super::*;
use crate::__verif_support::*;

macro_rules! c04_zipf {
    ($name:ident, $f:ty) => {
        vproof! {
            fn $name() {
                let n: $f = kani::any();
                let s: $f = kani::any();
                let r = Zipf::<$f>::new(n, s);
                // STooSmall: `s < 0` or nan; NTooSmall: `n < 1` or nan; IllDefined: `n = inf` and `s <= 1`
                let conds = [s < 0.0 || s != s, n < 1.0 || n != n, n == <$f>::INFINITY && s <= 1.0];
                let res = match &r {
                    Ok(_) => None,
                    Err(Error::STooSmall) => Some(0),
                    Err(Error::NTooSmall) => Some(1),
                    Err(Error::IllDefined) => Some(2),
                };
                c04_judge(res, conds);
                if let Ok(d) = r {
                    vassert!(d.s.to_bits() == s.to_bits(), "Zipf::new does not store s");
                }
                kani::cover!(res.is_none() && s == 1.0, "Ok s=1");
                kani::cover!(res.is_none() && s < 1.0, "Ok s<1");
                kani::cover!(res.is_none() && s > 1.0, "Ok s>1");
                kani::cover!(res == Some(0), "STooSmall reachable");
                kani::cover!(res == Some(1), "NTooSmall reachable");
                kani::cover!(res == Some(2), "IllDefined reachable");
            }
        }
    };
}
//@ id: c04_zipf_f64
//@ prop: C04
//@ tier: quick
//@ cap: 600
//@ funcs: Zipf::<f64>::new (incl. debug_assert!(t > 0))
//@ bounds: every pair of f64 bit patterns
//@ assumes: libm::pow, libm::log by contract
c04_zipf!(c04_zipf_f64, f64);
//@ id: c04_zipf_f32
//@ prop: C04
//@ tier: quick
//@ cap: 600
//@ funcs: Zipf::<f32>::new
//@ bounds: every pair of f32 bit patterns
//@ assumes: libm::powf, libm::logf by contract
c04_zipf!(c04_zipf_f32, f32);
