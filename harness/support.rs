// Support code shared by all injected harness modules (compiled only under cfg(kani)).
//
//  * SymRng     – the RNG as a nondeterministic stub (every word is a free 64-bit vector)
//  * c_*        – contract stubs for libm / std float functions (DESIGN.md §5)
//  * helpers    – ulp distance, bit-equality, typical-word predicates
#![allow(dead_code, unused_imports, static_mut_refs, clippy::all)]

/// assertion with a static tag (Kani reports the tag; natively it is the panic message)
macro_rules! vassert {
    ($c:expr, $m:literal) => {
        kani::assert($c, $m)
    };
}
pub(crate) use vassert;

use rand::rand_core::Infallible;

// ---------------------------------------------------------------------------------------
// RNG
// ---------------------------------------------------------------------------------------

/// Number of pre-drawn (replayable / shareable) words.
pub const NW: usize = 8;

/// Nondeterministic word stream.  The first `NW` words are drawn up-front (so that two runs can
/// share them and so that a counterexample maps to positions); every later word is a fresh
/// `kani::any()`.  `pos` counts the words consumed.  `limit`: a path that asks for more than
/// `limit` words is cut (`assume(false)`) — this is how rejection loops are bounded while the
/// unwinding assertions stay ON: every iteration of such a loop draws at least one word, so with
/// `#[kani::unwind(limit + 2)]` the unwinding assertion is *proved*, and the claim reads "for
/// every stream, every behaviour that returns within `limit` words".
///
/// Native replay (`cargo kani playback`, cfg(test)): no cut; words beyond the recorded ones come
/// from a SplitMix64 tail seeded by VERIF_SEED, so rejection loops terminate natively.
pub struct SymRng {
    pub words: [u64; NW],
    pub pos: usize,
    pub limit: usize,
    /// strict: asking for more than `limit` words is an assertion failure instead of a cut (used where the
    /// harness supplies a witness stream on which the sampler must return within `limit` words)
    pub strict: bool,
    #[cfg(test)]
    tail: u64,
}

impl SymRng {
    /// all words free, at most `limit` words may be consumed
    pub fn new(limit: usize) -> Self {
        Self::from_words(kani::any(), limit)
    }
    pub fn from_words(words: [u64; NW], limit: usize) -> Self {
        SymRng {
            words,
            pos: 0,
            limit,
            strict: false,
            #[cfg(test)]
            tail: std::env::var("VERIF_SEED").ok().and_then(|s| s.parse().ok()).unwrap_or(0u64) ^ 0x9e3779b97f4a7c15,
        }
    }
    #[cfg(not(test))]
    #[inline(always)]
    fn word(&mut self) -> u64 {
        let p = self.pos;
        if self.strict {
            vassert!(p < self.limit, "sampler asked for more random words than the witness stream allows (no acceptance)");
        }
        kani::assume(p < self.limit);
        self.pos = p + 1;
        if p < NW { self.words[p] } else { kani::any() }
    }
    #[cfg(test)]
    fn word(&mut self) -> u64 {
        let p = self.pos;
        if self.strict {
            vassert!(p < self.limit, "sampler asked for more random words than the witness stream allows (no acceptance)");
        }
        self.pos = p + 1;
        if p < NW && p < self.limit {
            self.words[p]
        } else {
            self.tail = self.tail.wrapping_add(0x9e3779b97f4a7c15);
            let mut z = self.tail;
            z = (z ^ (z >> 30)).wrapping_mul(0xbf58476d1ce4e5b9);
            z = (z ^ (z >> 27)).wrapping_mul(0x94d049bb133111eb);
            z ^ (z >> 31)
        }
    }
}

impl rand::TryRng for SymRng {
    type Error = Infallible;
    #[inline(always)]
    fn try_next_u32(&mut self) -> Result<u32, Infallible> {
        // Same convention as rand_distr's own ConstRng: the low half of one word.
        // Every 32-bit value is reachable, hence all 2^24 values of each f32 uniform.
        Ok(self.word() as u32)
    }
    #[inline(always)]
    fn try_next_u64(&mut self) -> Result<u64, Infallible> {
        Ok(self.word())
    }
    fn try_fill_bytes(&mut self, dst: &mut [u8]) -> Result<(), Infallible> {
        // not used by rand_distr; arbitrary bytes, one word per 8 bytes
        let mut i = 0;
        while i < dst.len() {
            let w = self.word().to_le_bytes();
            let mut j = 0;
            while j < 8 && i < dst.len() {
                dst[i] = w[j];
                i += 1;
                j += 1;
            }
        }
        Ok(())
    }
}

// ---------------------------------------------------------------------------------------
// float helpers
// ---------------------------------------------------------------------------------------

pub const LN2: f64 = core::f64::consts::LN_2;

#[inline(always)]
pub fn any_f64_nonnan() -> f64 {
    let r: f64 = kani::any();
    kani::assume(r == r);
    r
}
#[inline(always)]
pub fn any_f32_nonnan() -> f32 {
    let r: f32 = kani::any();
    kani::assume(r == r);
    r
}

/// Unbiased binary exponent of a positive finite f64: x in [2^e, 2^(e+1)); subnormals report
/// -1075 (so that the enclosure below stays valid: x >= 2^-1074 > 2^-1075).
#[inline(always)]
pub fn expo64(x: f64) -> i32 {
    let e = ((x.to_bits() >> 52) & 0x7ff) as i32;
    if e == 0 { -1075 } else { e - 1023 }
}
#[inline(always)]
pub fn expo32(x: f32) -> i32 {
    let e = ((x.to_bits() >> 23) & 0xff) as i32;
    if e == 0 { -150 } else { e - 127 }
}

/// ordered-integer image of an f64 (monotone on non-NaN values, -0 and +0 adjacent)
#[inline(always)]
pub fn ord64(x: f64) -> i64 {
    let b = x.to_bits() as i64;
    if b < 0 { -(b & i64::MAX) } else { b }
}
#[inline(always)]
pub fn ord32(x: f32) -> i32 {
    let b = x.to_bits() as i32;
    if b < 0 { -(b & i32::MAX) } else { b }
}
/// `a <= b + k ulp` (in units of representable values), both non-NaN
#[inline(always)]
pub fn le_ulps32(a: f32, b: f32, k: i32) -> bool {
    (ord32(a) as i64) <= (ord32(b) as i64) + k as i64
}
#[inline(always)]
pub fn le_ulps64(a: f64, b: f64, k: i64) -> bool {
    (ord64(a) as i128) <= (ord64(b) as i128) + k as i128
}

#[inline(always)]
pub fn biteq64(a: f64, b: f64) -> bool {
    a.to_bits() == b.to_bits() || (a != a && b != b)
}
#[inline(always)]
pub fn biteq32(a: f32, b: f32) -> bool {
    a.to_bits() == b.to_bits() || (a != a && b != b)
}

// ---------------------------------------------------------------------------------------
// libm contracts.  Every contract is satisfied by the true function (validated natively by
// /verif/replay `contracts` against the real libm), so UNSAT results are sound modulo them.
// ---------------------------------------------------------------------------------------

/// predicate form (used by the native validator as well): is `r` an admissible value of ln(x)?
pub fn ln64_ok(x: f64, r: f64) -> bool {
    if x != x || x < 0.0 {
        return r != r;
    }
    if x == 0.0 {
        return r == f64::NEG_INFINITY;
    }
    if x == 1.0 {
        return r == 0.0 && r.is_sign_positive();
    }
    if x == f64::INFINITY {
        return r == f64::INFINITY;
    }
    if r != r {
        return false;
    }
    let e = expo64(x) as f64;
    let lo = e * LN2 - 1e-9 * (e.abs() + 1.0);
    let hi = (e + 1.0) * LN2 + 1e-9 * (e.abs() + 2.0);
    let hi = if expo64(x) == -1075 { -708.3 } else { hi };
    if !(r >= lo && r <= hi) {
        return false;
    }
    // chord / tangent of ln on [1,2): with x = 2^e m,  e ln2 + (m-1) ln2 <= ln x <= e ln2 + (m-1)   (width <= 0.087)
    if expo64(x) != -1075 {
        let m = f64::from_bits((x.to_bits() & 0x000f_ffff_ffff_ffff) | 0x3ff0_0000_0000_0000);
        let base = e * LN2;
        let slack = 1e-9 * (e.abs() + 2.0);
        if !(r >= base + (m - 1.0) * LN2 - slack && r <= base + (m - 1.0) + slack) {
            return false;
        }
    }
    // (x-1)/x <= ln x <= x-1, used on [0.5, 2] where x-1 is exact (Sterbenz); 1e-6 slack for libm error
    if x >= 0.5 && x < 1.0 {
        let d = 1.0 - x;
        if !(r <= -d * 0.999999 && r >= -d * 2.000002) {
            return false;
        }
    }
    if x > 1.0 && x <= 2.0 {
        let d = x - 1.0;
        if !(r >= d * 0.499999 && r <= d * 1.000001) {
            return false;
        }
    }
    if x > 1.0 { r > 0.0 } else { r < 0.0 }
}
pub fn ln32_ok(x: f32, r: f32) -> bool {
    if x != x || x < 0.0 {
        return r != r;
    }
    if x == 0.0 {
        return r == f32::NEG_INFINITY;
    }
    if x == 1.0 {
        return r == 0.0 && r.is_sign_positive();
    }
    if x == f32::INFINITY {
        return r == f32::INFINITY;
    }
    if r != r {
        return false;
    }
    let e = expo32(x) as f64;
    let lo = e * LN2 - 1e-5 * (e.abs() + 1.0);
    let hi = (e + 1.0) * LN2 + 1e-5 * (e.abs() + 2.0);
    let hi = if expo32(x) == -150 { -87.3 } else { hi };
    let rd = r as f64;
    if !(rd >= lo && rd <= hi) {
        return false;
    }
    if expo32(x) != -150 {
        let m = f32::from_bits((x.to_bits() & 0x007f_ffff) | 0x3f80_0000) as f64;
        let base = e * LN2;
        let slack = 1e-5 * (e.abs() + 2.0);
        if !(rd >= base + (m - 1.0) * LN2 - slack && rd <= base + (m - 1.0) + slack) {
            return false;
        }
    }
    if x >= 0.5 && x < 1.0 {
        let d = 1.0 - x as f64;
        if !(rd <= -d * 0.9999 && rd >= -d * 2.0002) {
            return false;
        }
    }
    if x > 1.0 && x <= 2.0 {
        let d = x as f64 - 1.0;
        if !(rd >= d * 0.4999 && rd <= d * 1.0001) {
            return false;
        }
    }
    if x > 1.0 { r > 0.0 } else { r < 0.0 }
}

pub fn c_ln64(x: f64) -> f64 {
    if x != x || x < 0.0 {
        return f64::NAN;
    }
    if x == 0.0 {
        return f64::NEG_INFINITY;
    }
    if x == 1.0 {
        return 0.0;
    }
    if x == f64::INFINITY {
        return f64::INFINITY;
    }
    let r: f64 = kani::any();
    kani::assume(ln64_ok(x, r));
    r
}
pub fn c_ln32(x: f32) -> f32 {
    if x != x || x < 0.0 {
        return f32::NAN;
    }
    if x == 0.0 {
        return f32::NEG_INFINITY;
    }
    if x == 1.0 {
        return 0.0;
    }
    if x == f32::INFINITY {
        return f32::INFINITY;
    }
    let r: f32 = kani::any();
    kani::assume(ln32_ok(x, r));
    r
}

/// exp: exact on special values; sign / side-of-one; overflow and underflow thresholds;
/// factor-of-two enclosure is not needed by the current harnesses (kept loose = sound).
pub fn exp64_ok(x: f64, r: f64) -> bool {
    if x != x {
        return r != r;
    }
    if x == f64::INFINITY {
        return r == f64::INFINITY;
    }
    if x == f64::NEG_INFINITY {
        return r == 0.0 && r.is_sign_positive();
    }
    if x == 0.0 {
        return r == 1.0;
    }
    if r != r || r < 0.0 || (r == 0.0 && r.is_sign_negative()) {
        return false;
    }
    if x > 709.79 {
        return r == f64::INFINITY;
    }
    if x < -745.2 {
        return r == 0.0;
    }
    if x < 709.7 && r == f64::INFINITY {
        return false;
    }
    if x > -708.0 && r < f64::MIN_POSITIVE {
        return false;
    }
    // factor-of-four enclosure: 2^(x log2 e - 2) <= exp(x) <= 2^(x log2 e + 2) (for results in the normal range)
    if x > -708.0 && x < 709.7 {
        let t = x * core::f64::consts::LOG2_E;
        let e = expo64(r) as f64;
        if !(e >= t - 2.0 && e <= t + 2.0) {
            return false;
        }
    }
    if x > 0.0 { r >= 1.0 } else { r <= 1.0 }
}
pub fn exp32_ok(x: f32, r: f32) -> bool {
    if x != x {
        return r != r;
    }
    if x == f32::INFINITY {
        return r == f32::INFINITY;
    }
    if x == f32::NEG_INFINITY {
        return r == 0.0 && r.is_sign_positive();
    }
    if x == 0.0 {
        return r == 1.0;
    }
    if r != r || r < 0.0 || (r == 0.0 && r.is_sign_negative()) {
        return false;
    }
    if x > 88.73 {
        return r == f32::INFINITY;
    }
    if x < -103.98 {
        return r == 0.0;
    }
    if x < 88.7 && r == f32::INFINITY {
        return false;
    }
    if x > -87.0 && r < f32::MIN_POSITIVE {
        return false;
    }
    if x > -87.0 && x < 88.7 {
        let t = (x as f64) * core::f64::consts::LOG2_E;
        let e = expo32(r) as f64;
        if !(e >= t - 2.0 && e <= t + 2.0) {
            return false;
        }
    }
    if x > 0.0 { r >= 1.0 } else { r <= 1.0 }
}
pub fn c_exp64(x: f64) -> f64 {
    if x != x {
        return f64::NAN;
    }
    if x == 0.0 {
        return 1.0;
    }
    let r: f64 = kani::any();
    kani::assume(exp64_ok(x, r));
    r
}
pub fn c_exp32(x: f32) -> f32 {
    if x != x {
        return f32::NAN;
    }
    if x == 0.0 {
        return 1.0;
    }
    let r: f32 = kani::any();
    kani::assume(exp32_ok(x, r));
    r
}

// ---- pow -------------------------------------------------------------------------------

#[inline(always)]
fn is_int64(y: f64) -> bool {
    // every |y| >= 2^52 is an integer
    y.abs() >= 4503599627370496.0 || (y as i64 as f64) == y
}
#[inline(always)]
fn is_odd_int64(y: f64) -> bool {
    y.abs() < 9007199254740992.0 && (y as i64 as f64) == y && ((y as i64) & 1) == 1
}
#[inline(always)]
fn is_int32(y: f32) -> bool {
    y.abs() >= 8388608.0 || (y as i32 as f32) == y
}
#[inline(always)]
fn is_odd_int32(y: f32) -> bool {
    y.abs() < 16777216.0 && (y as i32 as f32) == y && ((y as i32) & 1) == 1
}

/// C99 Annex F.9.4.4 table for pow, plus for finite positive base: result >= 0, non-NaN and on
/// the side of 1 given by the signs of (x-1) and y.  `r` is an admissible result of pow(x, y)?
pub fn pow64_ok(x: f64, y: f64, r: f64) -> bool {
    let inf = f64::INFINITY;
    if y == 0.0 {
        return r == 1.0;
    }
    if x == 1.0 {
        return r == 1.0;
    }
    if x != x || y != y {
        return r != r;
    }
    if x == 0.0 {
        let neg = x.is_sign_negative();
        if y < 0.0 {
            return if is_odd_int64(y) && neg { r == -inf } else { r == inf };
        } else {
            return if is_odd_int64(y) {
                r == 0.0 && r.is_sign_negative() == neg
            } else {
                r == 0.0 && r.is_sign_positive()
            };
        }
    }
    if y == inf || y == -inf {
        let ax = x.abs();
        if ax == 1.0 {
            return r == 1.0;
        }
        return if (ax < 1.0) == (y < 0.0) { r == inf } else { r == 0.0 && r.is_sign_positive() };
    }
    if x == inf {
        return if y < 0.0 { r == 0.0 && r.is_sign_positive() } else { r == inf };
    }
    if x == -inf {
        return if y < 0.0 {
            r == 0.0 && (r.is_sign_negative() == is_odd_int64(y))
        } else if is_odd_int64(y) {
            r == -inf
        } else {
            r == inf
        };
    }
    // finite non-zero x, finite non-zero y
    if x < 0.0 {
        if !is_int64(y) {
            return r != r;
        }
        if r != r {
            return false;
        }
        return if is_odd_int64(y) { r <= 0.0 } else { r >= 0.0 };
    }
    // x > 0 finite, x != 1
    if r != r || r < 0.0 || (r == 0.0 && r.is_sign_negative()) {
        return false;
    }
    // |log2 x^y| <= |y| (|e_x| + 1): no overflow / underflow while that stays below 1000
    let lg = y.abs() * ((expo64(x).abs() + 1) as f64);
    if lg <= 1000.0 && !(r >= f64::MIN_POSITIVE && r < inf && (expo64(r).abs() as f64) <= lg + 1.0) {
        return false;
    }
    if (x > 1.0) == (y > 0.0) { r >= 1.0 } else { r <= 1.0 }
}
pub fn pow32_ok(x: f32, y: f32, r: f32) -> bool {
    let inf = f32::INFINITY;
    if y == 0.0 {
        return r == 1.0;
    }
    if x == 1.0 {
        return r == 1.0;
    }
    if x != x || y != y {
        return r != r;
    }
    if x == 0.0 {
        let neg = x.is_sign_negative();
        if y < 0.0 {
            return if is_odd_int32(y) && neg { r == -inf } else { r == inf };
        } else {
            return if is_odd_int32(y) {
                r == 0.0 && r.is_sign_negative() == neg
            } else {
                r == 0.0 && r.is_sign_positive()
            };
        }
    }
    if y == inf || y == -inf {
        let ax = x.abs();
        if ax == 1.0 {
            return r == 1.0;
        }
        return if (ax < 1.0) == (y < 0.0) { r == inf } else { r == 0.0 && r.is_sign_positive() };
    }
    if x == inf {
        return if y < 0.0 { r == 0.0 && r.is_sign_positive() } else { r == inf };
    }
    if x == -inf {
        return if y < 0.0 {
            r == 0.0 && (r.is_sign_negative() == is_odd_int32(y))
        } else if is_odd_int32(y) {
            r == -inf
        } else {
            r == inf
        };
    }
    if x < 0.0 {
        if !is_int32(y) {
            return r != r;
        }
        if r != r {
            return false;
        }
        return if is_odd_int32(y) { r <= 0.0 } else { r >= 0.0 };
    }
    if r != r || r < 0.0 || (r == 0.0 && r.is_sign_negative()) {
        return false;
    }
    let lg = y.abs() * ((expo32(x).abs() + 1) as f32);
    if lg <= 120.0 && !(r >= f32::MIN_POSITIVE && r < inf && (expo32(r).abs() as f32) <= lg + 1.0) {
        return false;
    }
    if (x > 1.0) == (y > 0.0) { r >= 1.0 } else { r <= 1.0 }
}
// pow is made functional on its two most recent distinct argument pairs (an uninterpreted function with the
// contract as axioms): Zeta computes 2^(s-1) in new() and again in sample()
static mut POW64_MEMO: [(u64, u64, u64); 2] = [(0, 0, 0); 2];
static mut POW64_VALID: [bool; 2] = [false; 2];
static mut POW64_NEXT: usize = 0;
pub fn c_pow64(x: f64, y: f64) -> f64 {
    unsafe {
        let mut i = 0;
        while i < 2 {
            if POW64_VALID[i] && POW64_MEMO[i].0 == x.to_bits() && POW64_MEMO[i].1 == y.to_bits() {
                return f64::from_bits(POW64_MEMO[i].2);
            }
            i += 1;
        }
    }
    let r: f64 = kani::any();
    kani::assume(pow64_ok(x, y, r));
    // 2^1024 and beyond overflow
    kani::assume(!(x >= 2.0 && y >= 1024.0) || r == f64::INFINITY);
    unsafe {
        POW64_MEMO[POW64_NEXT] = (x.to_bits(), y.to_bits(), r.to_bits());
        POW64_VALID[POW64_NEXT] = true;
        POW64_NEXT = 1 - POW64_NEXT;
    }
    r
}
/// memo-free variants (function-contract harnesses havoc statics)
pub fn c_pow64_plain(x: f64, y: f64) -> f64 {
    let r: f64 = kani::any();
    kani::assume(pow64_ok(x, y, r));
    r
}
pub fn c_pow32_plain(x: f32, y: f32) -> f32 {
    let r: f32 = kani::any();
    kani::assume(pow32_ok(x, y, r));
    r
}
static mut POW32_MEMO: [(u32, u32, u32); 2] = [(0, 0, 0); 2];
static mut POW32_VALID: [bool; 2] = [false; 2];
static mut POW32_NEXT: usize = 0;
pub fn c_pow32(x: f32, y: f32) -> f32 {
    unsafe {
        let mut i = 0;
        while i < 2 {
            if POW32_VALID[i] && POW32_MEMO[i].0 == x.to_bits() && POW32_MEMO[i].1 == y.to_bits() {
                return f32::from_bits(POW32_MEMO[i].2);
            }
            i += 1;
        }
    }
    let r: f32 = kani::any();
    kani::assume(pow32_ok(x, y, r));
    // 2^128 and beyond overflow f32
    kani::assume(!(x >= 2.0 && y >= 128.0) || r == f32::INFINITY);
    unsafe {
        POW32_MEMO[POW32_NEXT] = (x.to_bits(), y.to_bits(), r.to_bits());
        POW32_VALID[POW32_NEXT] = true;
        POW32_NEXT = 1 - POW32_NEXT;
    }
    r
}

// ---- sqrt ------------------------------------------------------------------------------

/// f32: exact characterisation of the correctly rounded square root (evaluated in f64 where
/// all quantities are exact).  libm::sqrtf is correctly rounded (IEEE-754 requirement, and
/// the x86 implementation is the sqrtss instruction).
pub fn sqrt32_ok(x: f32, r: f32) -> bool {
    if x != x || x < 0.0 {
        return r != r;
    }
    if x == 0.0 {
        return r == 0.0 && r.is_sign_negative() == x.is_sign_negative();
    }
    if x == f32::INFINITY {
        return r == f32::INFINITY;
    }
    if r != r || !(r > 0.0) || r == f32::INFINITY {
        return false;
    }
    let rb = r.to_bits();
    let lo = f32::from_bits(rb - 1) as f64; // r > 0 so rb >= 1; (rb-1 may be 0 => 0.0)
    let hi = f32::from_bits(rb + 1) as f64; // r < inf, may become inf: fine, hi=inf
    let rd = r as f64;
    let ml = (lo + rd) * 0.5;
    let mh = (hi + rd) * 0.5;
    let xd = x as f64;
    ml * ml < xd && (hi == f64::INFINITY || xd < mh * mh)
}
/// f64: 1-ulp enclosure by rounded squares of the neighbours (sound: rounding is monotone).
pub fn sqrt64_ok(x: f64, r: f64) -> bool {
    if x != x || x < 0.0 {
        return r != r;
    }
    if x == 0.0 {
        return r == 0.0 && r.is_sign_negative() == x.is_sign_negative();
    }
    if x == f64::INFINITY {
        return r == f64::INFINITY;
    }
    if r != r || !(r > 0.0) || r == f64::INFINITY {
        return false;
    }
    // monotone around 1 and exact at 1 (any correctly rounded root)
    if x == 1.0 {
        return r == 1.0;
    }
    if (x < 1.0 && r > 1.0) || (x > 1.0 && r < 1.0) {
        return false;
    }
    let rb = r.to_bits();
    let lo = f64::from_bits(rb - 1);
    let hi = f64::from_bits(rb + 1);
    lo * lo <= x && (hi == f64::INFINITY || x <= hi * hi)
}
pub fn c_sqrt64(x: f64) -> f64 {
    let r: f64 = kani::any();
    kani::assume(sqrt64_ok(x, r));
    r
}
pub fn c_sqrt32(x: f32) -> f32 {
    let r: f32 = kani::any();
    kani::assume(sqrt32_ok(x, r));
    r
}
/// cheap variant for harnesses where only sign / zero / NaN class of the root matters
pub fn c_sqrt64_class(x: f64) -> f64 {
    if x != x || x < 0.0 {
        return f64::NAN;
    }
    if x == 0.0 || x == f64::INFINITY {
        return x;
    }
    let r: f64 = kani::any();
    kani::assume(r > 0.0 && r < f64::INFINITY);
    // monotone enclosure by powers of two: sqrt(x) in [2^floor(e/2), 2^(floor(e/2)+1)]
    kani::assume(if x >= 1.0 { r >= 1.0 && r <= x } else { r <= 1.0 && r >= x });
    r
}
pub fn c_sqrt32_class(x: f32) -> f32 {
    if x != x || x < 0.0 {
        return f32::NAN;
    }
    if x == 0.0 || x == f32::INFINITY {
        return x;
    }
    let r: f32 = kani::any();
    kani::assume(r > 0.0 && r < f32::INFINITY);
    kani::assume(if x >= 1.0 { r >= 1.0 && r <= x } else { r <= 1.0 && r >= x });
    r
}

// ---- tan -------------------------------------------------------------------------------
pub fn tan64_ok(x: f64, r: f64) -> bool {
    if x != x || x.is_infinite() {
        return r != r;
    }
    if x == 0.0 {
        return r == 0.0 && r.is_sign_negative() == x.is_sign_negative();
    }
    if r != r || r.is_infinite() {
        return false; // no f64 is close enough to pi/2 + k pi for tan to overflow
    }
    // sign on (0, pi): positive below pi/2, negative above (no float equals pi/2)
    if x > 0.0 && x < 1.5707963267948966 {
        return r > 0.0;
    }
    if x > 1.5707963267948966 && x < 3.141592653589793 {
        return r < 0.0;
    }
    true
}
pub fn tan32_ok(x: f32, r: f32) -> bool {
    if x != x || x.is_infinite() {
        return r != r;
    }
    if x == 0.0 {
        return r == 0.0 && r.is_sign_negative() == x.is_sign_negative();
    }
    if r != r || r.is_infinite() {
        return false;
    }
    if x > 0.0 && x < 1.5707963 {
        return r > 0.0;
    }
    if x > 1.5707964 && x < 3.1415925 {
        return r < 0.0;
    }
    true
}
pub fn c_tan64(x: f64) -> f64 {
    let r: f64 = kani::any();
    kani::assume(tan64_ok(x, r));
    r
}
pub fn c_tan32(x: f32) -> f32 {
    let r: f32 = kani::any();
    kani::assume(tan32_ok(x, r));
    r
}

// ---- floor / fabs (exact, bit level; replace libm's generic versions which are heavier) -----
pub fn c_fabs64(x: f64) -> f64 {
    f64::from_bits(x.to_bits() & 0x7fff_ffff_ffff_ffff)
}
pub fn c_fabs32(x: f32) -> f32 {
    f32::from_bits(x.to_bits() & 0x7fff_ffff)
}

// ---------------------------------------------------------------------------------------
// std inherent float methods used by the concrete-f64 samplers (binomial, geometric,
// hypergeometric): same contracts
// ---------------------------------------------------------------------------------------
pub fn c_powi64(x: f64, n: i32) -> f64 {
    // powi(x, n) behaves like pow(x, n as f64) on the Annex-F rows used here
    c_pow64(x, n as f64)
}
pub fn c_floor64(x: f64) -> f64 {
    if x != x || x.is_infinite() || x.abs() >= 4503599627370496.0 {
        return x;
    }
    let t = x as i64 as f64; // truncation toward zero, exact for |x| < 2^52
    if t > x { t - 1.0 } else if t == 0.0 && x.is_sign_negative() { if x < 0.0 { -1.0 } else { -0.0 } } else { t }
}
pub fn c_floor32(x: f32) -> f32 {
    if x != x || x.is_infinite() || x.abs() >= 8388608.0 {
        return x;
    }
    let t = x as i32 as f32;
    if t > x { t - 1.0 } else if t == 0.0 && x.is_sign_negative() { if x < 0.0 { -1.0 } else { -0.0 } } else { t }
}

/// Result of a constructor for the C04 judgement: None = Ok, Some(i) = Err(variant number i).
/// `conds[i]` is the documented condition of variant i evaluated on the arguments.
pub fn c04_judge<const N: usize>(res: Option<usize>, conds: [bool; N]) {
    match res {
        None => {
            let mut i = 0;
            while i < N {
                vassert!(!conds[i], "constructor returned Ok although a documented error condition holds");
                i += 1;
            }
        }
        Some(v) => {
            vassert!(v < N && conds[v], "constructor returned an error variant whose documented condition is false");
        }
    }
}

/// A proof harness with every libm entry point replaced by its contract (f32 and f64).
macro_rules! vproof {
    ($(#[$m:meta])* fn $name:ident() $body:block) => {
        #[kani::proof]
        #[kani::stub(libm::log, c_ln64)]
        #[kani::stub(libm::logf, c_ln32)]
        #[kani::stub(libm::exp, c_exp64)]
        #[kani::stub(libm::expf, c_exp32)]
        #[kani::stub(libm::pow, c_pow64)]
        #[kani::stub(libm::powf, c_pow32)]
        #[kani::stub(libm::sqrt, c_sqrt64)]
        #[kani::stub(libm::sqrtf, c_sqrt32)]
        #[kani::stub(libm::tan, c_tan64)]
        #[kani::stub(libm::tanf, c_tan32)]
        #[kani::stub(libm::fabs, c_fabs64)]
        #[kani::stub(libm::fabsf, c_fabs32)]
        #[kani::stub(libm::floor, c_floor64)]
        #[kani::stub(libm::floorf, c_floor32)]
        #[kani::stub(f64::ln, c_ln64)]
        #[kani::stub(f64::exp, c_exp64)]
        #[kani::stub(f64::powf, c_pow64)]
        #[kani::stub(f64::powi, c_powi64)]
        #[kani::stub(f64::sqrt, c_sqrt64)]
        $(#[$m])*
        fn $name() $body
    };
}
pub(crate) use vproof;

// ---------------------------------------------------------------------------------------
// ziggurat contract for harnesses that are about a *caller* of StandardNormal / Exp1
// (assume-guarantee: the guarantee is established for the real function by the C06 harnesses
// c06_stdnormal_{rect,wedge,tail} and c06_exp1_{rect,wedge,tail}, outside the recorded
// known-finding region exp1_tail_u0).  Consumes one word.
// ---------------------------------------------------------------------------------------
pub fn c_ziggurat<R: rand::Rng + ?Sized, P, Z>(
    rng: &mut R,
    symmetric: bool,
    _x_tab: crate::ziggurat_tables::ZigTable,
    _f_tab: crate::ziggurat_tables::ZigTable,
    _pdf: P,
    _zero_case: Z,
) -> f64
where
    P: FnMut(f64) -> f64,
    Z: FnMut(&mut R, f64) -> f64,
{
    let _ = rng.next_u64();
    let r: f64 = kani::any();
    if symmetric {
        kani::assume(r >= -13.8 && r <= 13.8);
    } else {
        // smallest rectangle sample: u >= 2^-53 times X[255] > 1e-4, i.e. > 1e-20 (asserted by c06_exp1_rect)
        kani::assume(r >= 1e-20 && r <= 44.5);
    }
    r
}

/// like vproof!, but the square roots only by their class contract (sign / zero / NaN / monotone side of 1):
/// for harnesses about constructors' domains and stored structure, where root accuracy is irrelevant
macro_rules! vproof_lite {
    ($(#[$m:meta])* fn $name:ident() $body:block) => {
        #[kani::proof]
        #[kani::stub(libm::log, c_ln64)]
        #[kani::stub(libm::logf, c_ln32)]
        #[kani::stub(libm::exp, c_exp64)]
        #[kani::stub(libm::expf, c_exp32)]
        #[kani::stub(libm::pow, c_pow64)]
        #[kani::stub(libm::powf, c_pow32)]
        #[kani::stub(libm::sqrt, c_sqrt64_class)]
        #[kani::stub(libm::sqrtf, c_sqrt32_class)]
        #[kani::stub(libm::fabs, c_fabs64)]
        #[kani::stub(libm::fabsf, c_fabs32)]
        #[kani::stub(libm::floor, c_floor64)]
        #[kani::stub(libm::floorf, c_floor32)]
        $(#[$m])*
        fn $name() $body
    };
}
pub(crate) use vproof_lite;

/// like vproof!, with utils::ziggurat replaced by its contract as well
macro_rules! vproof_zstub {
    ($(#[$m:meta])* fn $name:ident() $body:block) => {
        vproof! {
            #[kani::stub(crate::utils::ziggurat, c_ziggurat)]
            $(#[$m])*
            fn $name() $body
        }
    };
}
pub(crate) use vproof_zstub;

// ---------------------------------------------------------------------------------------
// logging variants: same contract, but the (argument, result) pairs are recorded so that a
// harness can state the acceptance test of a rejection step over the *same* libm values the
// code saw (uninterpreted-function style; DESIGN §5 "functional stubs")
// ---------------------------------------------------------------------------------------
pub static mut LN_ARG: [f64; 4] = [0.0; 4];
pub static mut LN_RES: [f64; 4] = [0.0; 4];
pub static mut LN_N: usize = 0;
pub fn c_ln64_log(x: f64) -> f64 {
    let r = c_ln64(x);
    unsafe {
        if LN_N < 4 {
            LN_ARG[LN_N] = x;
            LN_RES[LN_N] = r;
        }
        LN_N += 1;
    }
    r
}
pub static mut EXP_ARG: [f64; 4] = [0.0; 4];
pub static mut EXP_RES: [f64; 4] = [0.0; 4];
pub static mut EXP_N: usize = 0;
pub fn c_exp64_log(x: f64) -> f64 {
    let r = c_exp64(x);
    unsafe {
        if EXP_N < 4 {
            EXP_ARG[EXP_N] = x;
            EXP_RES[EXP_N] = r;
        }
        EXP_N += 1;
    }
    r
}

// ---------------------------------------------------------------------------------------
// C07: "free" logging stubs.  The affine/scale structure of a sampler is pure algebra around a
// parameter-free standard quantity g (a libm result or a ziggurat draw): sample == loc + scale * g
// must hold for *whatever* value g has.  These stubs return a nondeterministic g from a small set of
// values on which the duplicated product scale * g is cheap for SAT (0, +-1, +-2, 1/2, -3), and log
// arguments and results so that the harness can state the data flow.
// ---------------------------------------------------------------------------------------
pub static mut F_ARG: [f64; 6] = [0.0; 6];
pub static mut F_ARG2: [f64; 6] = [0.0; 6];
pub static mut F_RES: [f64; 6] = [0.0; 6];
pub static mut F_N: usize = 0;

#[inline(always)]
fn simple_value() -> f64 {
    let k: u8 = kani::any();
    match k & 7 {
        0 => 0.0,
        1 => 1.0,
        2 => -1.0,
        3 => 2.0,
        4 => 0.5,
        5 => -3.0,
        6 => 0.75,
        _ => -0.0,
    }
}
fn flog(a: f64, b: f64) -> f64 {
    let r = simple_value();
    unsafe {
        if F_N < 6 {
            F_ARG[F_N] = a;
            F_ARG2[F_N] = b;
            F_RES[F_N] = r;
        }
        F_N += 1;
    }
    r
}
/// log a call whose result the caller chose
pub fn flog_with(a: f64, b: f64, r: f64) -> f64 {
    unsafe {
        if F_N < 6 {
            F_ARG[F_N] = a;
            F_ARG2[F_N] = b;
            F_RES[F_N] = r;
        }
        F_N += 1;
    }
    r
}
pub fn f_un64(x: f64) -> f64 {
    flog(x, 0.0)
}
pub fn f_un32(x: f32) -> f32 {
    flog(x as f64, 0.0) as f32
}
pub fn f_bin64(x: f64, y: f64) -> f64 {
    flog(x, y)
}
pub fn f_powi64(x: f64, n: i32) -> f64 {
    flog(x, n as f64)
}
pub fn f_bin32(x: f32, y: f32) -> f32 {
    flog(x as f64, y as f64) as f32
}
/// ziggurat as a free logged draw (consumes one word)
pub fn f_ziggurat<R: rand::Rng + ?Sized, P, Z>(
    rng: &mut R,
    symmetric: bool,
    _x_tab: crate::ziggurat_tables::ZigTable,
    _f_tab: crate::ziggurat_tables::ZigTable,
    _pdf: P,
    _zero_case: Z,
) -> f64
where
    P: FnMut(f64) -> f64,
    Z: FnMut(&mut R, f64) -> f64,
{
    let _ = rng.next_u64();
    flog(if symmetric { 1.0 } else { 0.0 }, 0.0)
}
/// true in the native replay build (`cargo kani playback` compiles the harness as a #[test], stubs are NOT
/// applied there): harnesses then take the standard quantity from the real libm / real ziggurat instead of
/// the log, so that the replay evaluates the same algebraic assertion on the real build.
#[inline(always)]
pub fn native() -> bool {
    cfg!(test)
}
pub fn flog_get(i: usize) -> (f64, f64, f64) {
    unsafe { (F_ARG[i], F_ARG2[i], F_RES[i]) }
}
pub fn flog_n() -> usize {
    unsafe { F_N }
}

macro_rules! vproof_free {
    ($(#[$m:meta])* fn $name:ident() $body:block) => {
        #[kani::proof]
        #[kani::stub(libm::log, f_un64)]
        #[kani::stub(libm::logf, f_un32)]
        #[kani::stub(libm::exp, f_un64)]
        #[kani::stub(libm::expf, f_un32)]
        #[kani::stub(libm::tan, f_un64)]
        #[kani::stub(libm::tanf, f_un32)]
        #[kani::stub(libm::pow, f_bin64)]
        #[kani::stub(libm::powf, f_bin32)]
        #[kani::stub(f64::ln, f_un64)]
        #[kani::stub(f64::exp, f_un64)]
        #[kani::stub(f64::powf, f_bin64)]
        #[kani::stub(f64::powi, f_powi64)]
        #[kani::stub(libm::log1p, f_un64)]
        #[kani::stub(libm::log1pf, f_un32)]
        #[kani::stub(libm::sqrt, c_sqrt64_class)]
        #[kani::stub(libm::sqrtf, c_sqrt32_class)]
        #[kani::stub(f64::sqrt, c_sqrt64_class)]
        #[kani::stub(crate::utils::ziggurat, f_ziggurat)]
        $(#[$m])*
        fn $name() $body
    };
}
pub(crate) use vproof_free;

/// OpenClosed01 / StandardUniform / Open01 draws as functions of the word (rand's definitions)
pub fn oc01_64(w: u64) -> f64 {
    (((w >> 11) + 1) as f64) * (1.0 / 9007199254740992.0)
}
pub fn oc01_32(w: u64) -> f32 {
    ((((w as u32) >> 8) + 1) as f32) * (1.0 / 16777216.0)
}
pub fn su01_64(w: u64) -> f64 {
    ((w >> 11) as f64) * (1.0 / 9007199254740992.0)
}
pub fn su01_32(w: u64) -> f32 {
    (((w as u32) >> 8) as f32) * (1.0 / 16777216.0)
}

// a pdf value chosen by the harness (wedge edge checks of the ziggurat): the stub for exp returns it
pub static mut FIXED_EXP: f64 = 0.0;
pub fn c_exp64_fixed(_x: f64) -> f64 {
    unsafe { FIXED_EXP }
}

/// ziggurat as a *deterministic function of the consumed word* (for two-run relations on the same stream):
/// symmetric: a dyadic value in [-8, 8); one-sided: in (0, 16]
pub fn f_ziggurat_words<R: rand::Rng + ?Sized, P, Z>(
    rng: &mut R,
    symmetric: bool,
    _x_tab: crate::ziggurat_tables::ZigTable,
    _f_tab: crate::ziggurat_tables::ZigTable,
    _pdf: P,
    _zero_case: Z,
) -> f64
where
    P: FnMut(f64) -> f64,
    Z: FnMut(&mut R, f64) -> f64,
{
    let w = rng.next_u64();
    // 8 significant bits only: keeps products with it cheap
    let k = (w >> 56) as i64; // 0..255
    if symmetric { (k - 128) as f64 / 16.0 } else { (k + 1) as f64 / 16.0 }
}
/// sqrt as a function: the same argument gives the same (class-contract) value on every call
static mut SQRT64_MEMO: (u64, u64, bool) = (0, 0, false);
pub fn c_sqrt64_fn(x: f64) -> f64 {
    unsafe {
        if SQRT64_MEMO.2 && SQRT64_MEMO.0 == x.to_bits() {
            return f64::from_bits(SQRT64_MEMO.1);
        }
    }
    let r = c_sqrt64_class(x);
    unsafe { SQRT64_MEMO = (x.to_bits(), r.to_bits(), true); }
    r
}
static mut SQRT32_MEMO: (u32, u32, bool) = (0, 0, false);
pub fn c_sqrt32_fn(x: f32) -> f32 {
    unsafe {
        if SQRT32_MEMO.2 && SQRT32_MEMO.0 == x.to_bits() {
            return f32::from_bits(SQRT32_MEMO.1);
        }
    }
    let r = c_sqrt32_class(x);
    unsafe { SQRT32_MEMO = (x.to_bits(), r.to_bits(), true); }
    r
}

/// sqrt replaced by a constant (harnesses about algebraic structure only: the value is irrelevant, but a
/// symbolic divisor duplicated in two runs does not finish)
pub fn c_sqrt64_const(_x: f64) -> f64 {
    3.25
}
pub fn c_sqrt32_const(_x: f32) -> f32 {
    3.25
}

/// sqrt returning a value fixed by the harness (for harnesses over concrete parameters, where a symbolic root would
/// make rand's Uniform::new_bounded loop unbounded)
pub static mut FIXED_SQRT: f64 = 0.0;
pub fn c_sqrt64_fixed(_x: f64) -> f64 {
    unsafe { FIXED_SQRT }
}
