// Harnesses for src/unit_ball.rs
//@@ needs: unit_circle.rs
#[allow(unused_imports)]
use std::{vec, vec::Vec};
use super::*;
use crate::__verif_support::*;
use crate::unit_circle::__verif::{cand32, cand64};

macro_rules! c12_ball {
    ($name:ident, $f:ty, $cand:ident) => {
        vproof! {
            #[kani::unwind(4)]
            fn $name() {
                let mut rng = SymRng::new(6);
                let a = $cand(rng.words[0]);
                let b = $cand(rng.words[1]);
                let c = $cand(rng.words[2]);
                let a2 = $cand(rng.words[3]);
                let b2 = $cand(rng.words[4]);
                let c2 = $cand(rng.words[5]);
                let inside = a.abs() <= 0.5 && b.abs() <= 0.5 && c.abs() <= 0.5;
                let outside = a.abs() >= 0.75 && b.abs() >= 0.75;
                let p: [$f; 3] = UnitBall.sample(&mut rng);
                vassert!(rng.pos % 3 == 0, "UnitBall: a trial must consume exactly three draws");
                if inside { vassert!(rng.pos == 3, "UnitBall: candidate inside the ball was not accepted"); }
                if outside { vassert!(rng.pos != 3, "UnitBall: candidate outside the ball was accepted"); }
                if rng.pos == 3 {
                    vassert!(p[0] == a && p[1] == b && p[2] == c, "UnitBall: returned point is not the accepted candidate");
                } else {
                    vassert!(p[0] == a2 && p[1] == b2 && p[2] == c2, "UnitBall: returned point is not the accepted (second) candidate");
                }
                kani::cover!(rng.pos == 3 && inside, "accepted inside");
                kani::cover!(rng.pos == 6 && outside, "rejected outside, second trial accepted");
            }
        }
    };
}
//@ id: c12_unit_ball_f32
//@ prop: C12
//@ tier: quick
//@ cap: 900
//@ funcs: UnitBall::sample::<f32>; rand Uniform::<f32>::new/sample
//@ bounds: every stream, returns within 6 words (two trials); acceptance regions; output is exactly the accepted candidate
c12_ball!(c12_unit_ball_f32, f32, cand32);
//@ id: c12_unit_ball_f64
//@ prop: C12
//@ tier: quick
//@ cap: 1200
//@ funcs: UnitBall::sample::<f64>; rand Uniform::<f64>::new/sample
//@ bounds: as c12_unit_ball_f32, 52-bit candidates
c12_ball!(c12_unit_ball_f64, f64, cand64);
