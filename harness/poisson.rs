// Harnesses for src/poisson.rs
#[allow(unused_imports)]
use std::{vec, vec::Vec};
use super::*;
use crate::__verif_support::*;

macro_rules! c04_poisson {
    ($name:ident, $f:ty) => {
        vproof! {
            fn $name() {
                let lambda: $f = kani::any();
                let r = Poisson::<$f>::new(lambda);
                // ShapeTooSmall: `lambda <= 0`; NonFinite: inf or nan; ShapeTooLarge: lambda > MAX_LAMBDA
                let maxl = Poisson::<$f>::MAX_LAMBDA as $f;
                let conds = [lambda <= 0.0, lambda.is_infinite() || lambda != lambda, lambda > maxl];
                let res = match &r {
                    Ok(_) => None,
                    Err(Error::ShapeTooSmall) => Some(0),
                    Err(Error::NonFinite) => Some(1),
                    Err(Error::ShapeTooLarge) => Some(2),
                };
                c04_judge(res, conds);
                if let Ok(d) = r {
                    match d.0 {
                        Method::Knuth(_) => vassert!(lambda < 12.0, "Poisson: Knuth method for lambda >= 12"),
                        Method::Rejection(m) => {
                            vassert!(lambda >= 12.0, "Poisson: rejection method for lambda < 12");
                            vassert!(m.lambda.to_bits() == lambda.to_bits(), "Poisson(Rejection) does not store lambda");
                        }
                    }
                }
                kani::cover!(res.is_none() && lambda < 12.0, "Ok Knuth");
                kani::cover!(res.is_none() && lambda >= 12.0, "Ok rejection");
                kani::cover!(res == Some(0), "ShapeTooSmall reachable");
                kani::cover!(res == Some(1), "NonFinite reachable");
                kani::cover!(res == Some(2), "ShapeTooLarge reachable");
            }
        }
    };
}
//@ id: c04_poisson_f64
//@ prop: C04
//@ tier: quick
//@ cap: 600
//@ funcs: Poisson::<f64>::new; KnuthMethod::new; RejectionMethod::new
//@ bounds: every f64 bit pattern (MAX_LAMBDA +- ulp, 12 +- ulp included)
//@ assumes: libm::exp, libm::sqrt by contract
c04_poisson!(c04_poisson_f64, f64);
//@ id: c04_poisson_f32
//@ prop: C04
//@ tier: quick
//@ cap: 600
//@ funcs: Poisson::<f32>::new
//@ bounds: every f32 bit pattern
//@ assumes: libm::expf, libm::sqrtf by contract
c04_poisson!(c04_poisson_f32, f32);
