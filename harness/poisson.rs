// Harnesses for src/poisson.rs
#[allow(unused_imports)]
use std::{vec, vec::Vec};
use super::*;
use crate::__verif_support::*;

macro_rules! c04_poisson {
    ($name:ident, $f:ty) => {
        vproof! {
            fn $name() {
                let lambda: $f = kani::any();
                let r = Poisson::<$f>::new(lambda);
                // ShapeTooSmall: `lambda <= 0`; NonFinite: inf or nan; ShapeTooLarge: lambda > MAX_LAMBDA
                let maxl = Poisson::<$f>::MAX_LAMBDA as $f;
                let conds = [lambda <= 0.0, lambda.is_infinite() || lambda != lambda, lambda > maxl];
                let res = match &r {
                    Ok(_) => None,
                    Err(Error::ShapeTooSmall) => Some(0),
                    Err(Error::NonFinite) => Some(1),
                    Err(Error::ShapeTooLarge) => Some(2),
                };
                c04_judge(res, conds);
                if let Ok(d) = r {
                    match d.0 {
                        Method::Knuth(_) => vassert!(lambda < 12.0, "Poisson: Knuth method for lambda >= 12"),
                        Method::Rejection(m) => {
                            vassert!(lambda >= 12.0, "Poisson: rejection method for lambda < 12");
                            vassert!(m.lambda.to_bits() == lambda.to_bits(), "Poisson(Rejection) does not store lambda");
                        }
                    }
                }
                kani::cover!(res.is_none() && lambda < 12.0, "Ok Knuth");
                kani::cover!(res.is_none() && lambda >= 12.0, "Ok rejection");
                kani::cover!(res == Some(0), "ShapeTooSmall reachable");
                kani::cover!(res == Some(1), "NonFinite reachable");
                kani::cover!(res == Some(2), "ShapeTooLarge reachable");
            }
        }
    };
}
//@ id: c04_poisson_f64
//@ besteffort: yes
//@ prop: C04
//@ tier: thorough
//@ cap: 600
//@ funcs: Poisson::<f64>::new; KnuthMethod::new; RejectionMethod::new
//@ bounds: every f64 bit pattern (MAX_LAMBDA +- ulp, 12 +- ulp included)
//@ assumes: libm::exp, libm::sqrt by contract
c04_poisson!(c04_poisson_f64, f64);
//@ id: c04_poisson_f32
//@ prop: C04
//@ tier: quick
//@ cap: 600
//@ funcs: Poisson::<f32>::new
//@ bounds: every f32 bit pattern
//@ assumes: libm::expf, libm::sqrtf by contract
c04_poisson!(c04_poisson_f32, f32);

// ------------------------------------------------------------------------------------------
// C03 / C02: Knuth product method (lambda < 12) and one pass of the PD rejection method
// ------------------------------------------------------------------------------------------
macro_rules! c03_poisson_knuth {
    ($name:ident, $f:ty) => {
        vproof! {
            #[kani::unwind(6)]
            fn $name() {
                let mut rng = SymRng::new(4); // all symbolic inputs are drawn first (replay alignment)
                let lambda: $f = kani::any();
                kani::assume(lambda < 12.0);
                let d = match Poisson::<$f>::new(lambda) { Ok(d) => d, Err(_) => return };
                // (the Method::Knuth arm of Poisson::sample, called directly to keep the PD method out of the formula)
                let x: $f = match &d.0 { Method::Knuth(m) => m.sample(&mut rng), _ => return };
                // Knuth: result k needs exactly k+1 draws
                vassert!(x == (rng.pos - 1) as $f, "Poisson(Knuth): result is not (number of draws - 1)");
                kani::cover!(rng.pos == 1, "result 0");
                kani::cover!(rng.pos == 4, "result 3");
            }
        }
    };
}
//@ id: c03_poisson_knuth_f64
//@ prop: C03
//@ tier: quick
//@ cap: 600
//@ funcs: Poisson::<f64>::new; KnuthMethod::<f64>::sample
//@ bounds: every lambda in (0, 12); returns within 4 words
//@ assumes: libm::exp by contract
c03_poisson_knuth!(c03_poisson_knuth_f64, f64);
//@ id: c03_poisson_knuth_f32
//@ prop: C03
//@ tier: quick
//@ cap: 600
//@ funcs: Poisson::<f32>::new; KnuthMethod::<f32>::sample
//@ bounds: every lambda in (0, 12); returns within 4 words
//@ assumes: libm::expf by contract
c03_poisson_knuth!(c03_poisson_knuth_f32, f32);

macro_rules! c03_poisson_rej {
    ($name:ident, $f:ty, $maxl:expr) => {
        vproof_zstub! {
            // (12: the Horner fold over the 10 Table-1 coefficients in step F)
            #[kani::unwind(12)]
            fn $name() {
                let mut rng = SymRng::new(4); // all symbolic inputs are drawn first (replay alignment)
                let lambda: $f = kani::any();
                kani::assume(lambda >= 12.0 && lambda <= $maxl);
                let d = match Poisson::<$f>::new(lambda) { Ok(d) => d, Err(_) => return };
                let x: $f = match &d.0 { Method::Rejection(m) => m.sample(&mut rng), _ => return };
                vassert!(x == x, "Poisson(rejection) sample is NaN");
                vassert!(x >= 0.0, "Poisson(rejection) sample is negative");
                vassert!(x.is_finite(), "Poisson(rejection) sample is infinite");
                kani::cover!(rng.pos == 1, "step I accept");
                kani::cover!(rng.pos == 4, "step E/H accept");
            }
        }
    };
}
//@ id: c03_poisson_rejection_f64
//@ besteffort: yes
//@ prop: C03
//@ tier: thorough
//@ cap: 1500
//@ funcs: Poisson::<f64>::new; RejectionMethod::<f64>::sample (steps N, I, S, Q, one pass of E/H, F); Normal::sample
//@ bounds: lambda in [12, 1e15]; returns within 4 words (steps N/I/S/Q and one E/H trial)
//@ assumes: utils::ziggurat, libm::{exp,log,pow,sqrt} by contract
c03_poisson_rej!(c03_poisson_rejection_f64, f64, 1e15);
//@ id: c03_poisson_rejection_f32
//@ besteffort: yes
//@ prop: C03
//@ tier: thorough
//@ cap: 1500
//@ funcs: Poisson::<f32>::new; RejectionMethod::<f32>::sample
//@ bounds: lambda in [12, 1e7]; returns within 4 words
//@ assumes: utils::ziggurat, libm::{expf,logf,powf,sqrtf} by contract
c03_poisson_rej!(c03_poisson_rejection_f32, f32, 1e7);
