// Harnesses for src/triangular.rs
#[allow(unused_imports)]
use std::{vec, vec::Vec};
use super::*;
use crate::__verif_support::*;

macro_rules! c04_triangular {
    ($name:ident, $f:ty) => {
        vproof! {
            fn $name() {
                let min: $f = kani::any();
                let max: $f = kani::any();
                let mode: $f = kani::any();
                let r = Triangular::<$f>::new(min, max, mode);
                // RangeTooSmall: `max < min` or min or max NaN;  ModeRange: `mode < min` or `mode > max` or mode NaN
                let conds = [max < min || min != min || max != max, mode < min || mode > max || mode != mode];
                let res = match &r {
                    Ok(_) => None,
                    Err(TriangularError::RangeTooSmall) => Some(0),
                    Err(TriangularError::ModeRange) => Some(1),
                };
                c04_judge(res, conds);
                if let Ok(d) = r {
                    vassert!(d.min.to_bits() == min.to_bits() && d.max.to_bits() == max.to_bits() && d.mode.to_bits() == mode.to_bits(),
                        "Triangular::new does not store its arguments");
                }
                kani::cover!(res.is_none(), "Ok reachable");
                kani::cover!(res == Some(0), "RangeTooSmall reachable");
                kani::cover!(res == Some(1), "ModeRange reachable");
            }
        }
    };
}
//@ id: c04_triangular_f64
//@ prop: C04
//@ tier: quick
//@ cap: 300
//@ funcs: Triangular::<f64>::new
//@ bounds: every triple of f64 bit patterns
c04_triangular!(c04_triangular_f64, f64);
//@ id: c04_triangular_f32
//@ prop: C04
//@ tier: quick
//@ cap: 300
//@ funcs: Triangular::<f32>::new
//@ bounds: every triple of f32 bit patterns
c04_triangular!(c04_triangular_f32, f32);

// C03: within [min, max] up to 4 ulp of the larger bound: tolerance 4 * eps * max(|min|, |max|)
macro_rules! c03_triangular {
    ($name:ident, $f:ty, $maxloc:expr, $eps:expr, $sqrtmax:expr, $tiny:expr, $mode:expr) => {
        vproof! {
            fn $name() {
                let mut rng = SymRng::new(1);
                let min: $f = kani::any();
                let max: $f = kani::any();
                let mode: $f = kani::any();
                if let Ok(d) = Triangular::<$f>::new(min, max, mode) {
                    kani::assume(min.abs() <= $maxloc && max.abs() <= $maxloc);
                    // region of known finding triangular_f32_range_overflow: (max - min)^2 overflows the float type
                    // region of known finding triangular_f32_underflow: all magnitudes below $tiny (products become subnormal)
                    let bigf = if min.abs() > max.abs() { min.abs() } else { max.abs() };
                    if $mode == 0 { kani::assume(max - min <= $sqrtmax && bigf >= $tiny); }
                    else if $mode == 1 { kani::assume(max - min > $sqrtmax); }
                    else { kani::assume(bigf < $tiny && bigf >= 1e-30); }
                    let x: $f = d.sample(&mut rng);
                    vassert!(x == x, "Triangular sample is NaN");
                    let big = if min.abs() > max.abs() { min.abs() } else { max.abs() } as f64;
                    let tol = 4.0 * $eps * big;
                    vassert!(x as f64 >= min as f64 - tol, "Triangular sample below min by more than 4 ulp");
                    vassert!(x as f64 <= max as f64 + tol, "Triangular sample above max by more than 4 ulp");
                    vassert!(rng.pos == 1, "Triangular consumes exactly one word");
                    kani::cover!(max > min && mode > min && mode < max, "proper triangle");
                    kani::cover!(max == min, "degenerate range");
                }
            }
        }
    };
}
//@ id: c03_triangular_f32
//@ besteffort: yes
//@ prop: C03
//@ tier: thorough
//@ cap: 1500
//@ funcs: Triangular::<f32>::new; Triangular::<f32>::sample; rand StandardUniform::<f32>
//@ bounds: all (min, max, mode) accepted by new() with |min|,|max| <= 1e30; all 2^24 uniform values
//@ assumes: libm::sqrtf = exact characterisation of the correctly rounded root; max - min <= 1.8e19 (known finding triangular_f32_range_overflow); max(|min|,|max|) >= 1e-15 (known finding triangular_f32_underflow)
c03_triangular!(c03_triangular_f32, f32, 1e30, 1.1920929e-7f64, 1.8e19, 1e-15, 0);
//@ id: c03_triangular_f32_kf_range
//@ prop: C03
//@ tier: quick
//@ cap: 900
//@ expect: fail
//@ funcs: Triangular::<f32>::sample
//@ bounds: max - min > 1.8e19 (square of the range overflows f32), |min|,|max| <= 1e30
c03_triangular!(c03_triangular_f32_kf_range, f32, 1e30, 1.1920929e-7f64, 1.8e19, 1e-15, 1);
//@ id: c03_triangular_f32_kf_tiny
//@ prop: C03
//@ tier: quick
//@ cap: 900
//@ expect: fail
//@ funcs: Triangular::<f32>::sample
//@ bounds: 1e-30 <= max(|min|,|max|) < 1e-15 (the product under the square root is subnormal)
c03_triangular!(c03_triangular_f32_kf_tiny, f32, 1e30, 1.1920929e-7f64, 1.8e19, 1e-15, 2);
//@ id: c03_triangular_f64
//@ besteffort: yes
//@ prop: C03
//@ tier: thorough
//@ cap: 1500
//@ funcs: Triangular::<f64>::new; Triangular::<f64>::sample
//@ bounds: all (min, max, mode) accepted by new() with |min|,|max| <= 1e100; every 64-bit word
//@ assumes: libm::sqrt = 1-ulp enclosure contract
c03_triangular!(c03_triangular_f64, f64, 1e100, 2.220446049250313e-16f64, 1e150, 1e-100, 0);

// quick tier: class-level facts (the 4-ulp enclosure above needs the solver to bound products and a
// square root; it is attempted at the thorough tier)
macro_rules! c03_triangular_class {
    ($name:ident, $f:ty, $maxloc:expr, $sqrtmax:expr) => {
        vproof! {
            fn $name() {
                let mut rng = SymRng::new(1);
                let min: $f = kani::any();
                let max: $f = kani::any();
                let mode: $f = kani::any();
                if let Ok(d) = Triangular::<$f>::new(min, max, mode) {
                    kani::assume(min.abs() <= $maxloc && max.abs() <= $maxloc && max - min <= $sqrtmax);
                    let x: $f = d.sample(&mut rng);
                    vassert!(x == x, "Triangular sample is NaN");
                    vassert!(x.is_finite(), "Triangular sample is infinite");
                    vassert!(rng.pos == 1, "Triangular consumes exactly one word");
                    vassert!(!(max == min) || x == min, "Triangular with min == max must return that point");
                    kani::cover!(max > min && mode > min && mode < max, "proper triangle");
                    kani::cover!(max == min, "degenerate range");
                }
            }
        }
    };
}
//@ id: c03_triangular_class_f32
//@ prop: C03
//@ tier: quick
//@ cap: 600
//@ funcs: Triangular::<f32>::new; Triangular::<f32>::sample
//@ bounds: all accepted (min,max,mode), |min|,|max| <= 1e30, max-min <= 1.8e19; all 2^24 uniform values; asserts non-NaN, finite, 1 word, degenerate range exact
//@ assumes: libm::sqrtf contract; known finding triangular_f32_range_overflow excluded
c03_triangular_class!(c03_triangular_class_f32, f32, 1e30, 1.8e19);
//@ id: c03_triangular_class_f64
//@ besteffort: yes
//@ prop: C03
//@ tier: thorough
//@ cap: 600
//@ funcs: Triangular::<f64>::new; Triangular::<f64>::sample
//@ bounds: all accepted (min,max,mode), |min|,|max| <= 1e100; every 64-bit word; asserts non-NaN, finite, 1 word, degenerate range exact
//@ assumes: libm::sqrt contract
c03_triangular_class!(c03_triangular_class_f64, f64, 1e100, 1e150);
