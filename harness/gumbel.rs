// Harnesses for src/gumbel.rs (injected as child module `__verif`: sees private fields)
#[allow(unused_imports)]
use std::{vec, vec::Vec};
use super::*;
use crate::__verif_support::*;

fn u1_f64(w: u64) -> bool {
    (w >> 11) == (1u64 << 53) - 1
}
fn u1_f32(w: u64) -> bool {
    ((w as u32) >> 8) == (1u32 << 24) - 1
}

// E (DESIGN §4): location finite |x| <= 1e100 / 1e30, scale in [1e-100, 1e100] / [1e-30, 1e30]
macro_rules! c03_gumbel {
    ($name:ident, $f:ty, $maxloc:expr, $minsc:expr, $maxsc:expr, $u1:expr, $mode:expr) => {
        vproof! {
            fn $name() {
                let mut rng = SymRng::new(1);
                let loc: $f = kani::any();
                let scale: $f = kani::any();
                // region of known finding gumbel_u1: the OpenClosed01 draw equals 1.0
                let u_is_one = $u1(rng.words[0]);
                if $mode == 0 {
                    kani::assume(!u_is_one);
                } else {
                    kani::assume(u_is_one);
                }
                if let Ok(d) = Gumbel::<$f>::new(loc, scale) {
                    kani::assume(loc.abs() <= $maxloc && scale >= $minsc && scale <= $maxsc);
                    let x: $f = d.sample(&mut rng);
                    vassert!(x == x, "Gumbel sample is NaN");
                    vassert!(x.is_finite(), "Gumbel sample is infinite");
                    vassert!(rng.pos == 1, "Gumbel consumes exactly one word");
                    kani::cover!(true, "sample returned");
                }
            }
        }
    };
}

//@ id: c03_gumbel_f64
//@ prop: C03
//@ tier: quick
//@ cap: 300
//@ funcs: Gumbel::<f64>::new; Gumbel::<f64>::sample; rand OpenClosed01::sample::<f64>
//@ bounds: all (location, scale) accepted by new() and in E; every 64-bit word; 1 word
//@ assumes: libm::log = contract c_ln64; draw != 1.0 (region of known finding gumbel_u1_f64, decided by the witness harness)
c03_gumbel!(c03_gumbel_f64, f64, 1e100, 1e-100, 1e100, u1_f64, 0);

//@ id: c03_gumbel_f32
//@ prop: C03
//@ tier: quick
//@ cap: 300
//@ funcs: Gumbel::<f32>::new; Gumbel::<f32>::sample; rand OpenClosed01::sample::<f32>
//@ bounds: all (location, scale) accepted by new() and in E; every 32-bit word (all 2^24 uniform values); 1 word
//@ assumes: libm::logf = contract c_ln32; draw != 1.0 (region of known finding gumbel_u1_f32)
c03_gumbel!(c03_gumbel_f32, f32, 1e30, 1e-30, 1e30, u1_f32, 0);

//@ id: c03_gumbel_f64_kf_u1
//@ prop: C03
//@ tier: quick
//@ cap: 300
//@ expect: fail
//@ funcs: Gumbel::<f64>::sample
//@ bounds: the draw equals 1.0 (word >> 11 all ones)
c03_gumbel!(c03_gumbel_f64_kf_u1, f64, 1e100, 1e-100, 1e100, u1_f64, 1);

//@ id: c03_gumbel_f32_kf_u1
//@ prop: C03
//@ tier: quick
//@ cap: 300
//@ expect: fail
//@ funcs: Gumbel::<f32>::sample
//@ bounds: the draw equals 1.0 (low 32 bits >> 8 all ones)
c03_gumbel!(c03_gumbel_f32_kf_u1, f32, 1e30, 1e-30, 1e30, u1_f32, 1);

// ---- C04 ------------------------------------------------------------------------------------
macro_rules! c04_gumbel {
    ($name:ident, $f:ty) => {
        vproof! {
            fn $name() {
                let loc: $f = kani::any();
                let scale: $f = kani::any();
                let r = Gumbel::<$f>::new(loc, scale);
                // documented: LocationNotFinite "location is infinite or NaN";
                //             ScaleNotPositive  "scale is not finite positive number"
                let conds = [loc.is_infinite() || loc != loc, !(scale > 0.0 && scale < <$f>::INFINITY)];
                let res = match &r {
                    Ok(_) => None,
                    Err(Error::LocationNotFinite) => Some(0),
                    Err(Error::ScaleNotPositive) => Some(1),
                };
                c04_judge(res, conds);
                if let Ok(d) = r {
                    vassert!(d.location.to_bits() == loc.to_bits() && d.scale.to_bits() == scale.to_bits(),
                        "Gumbel::new does not store its arguments");
                }
                kani::cover!(res.is_none(), "Ok reachable");
                kani::cover!(res == Some(0), "LocationNotFinite reachable");
                kani::cover!(res == Some(1), "ScaleNotPositive reachable");
            }
        }
    };
}
//@ id: c04_gumbel_f64
//@ prop: C04
//@ tier: quick
//@ cap: 300
//@ funcs: Gumbel::<f64>::new
//@ bounds: every pair of f64 bit patterns (NaN payloads, +-0, subnormals, +-inf included)
//@ assumes: none
c04_gumbel!(c04_gumbel_f64, f64);
//@ id: c04_gumbel_f32
//@ prop: C04
//@ tier: quick
//@ cap: 300
//@ funcs: Gumbel::<f32>::new
//@ bounds: every pair of f32 bit patterns
//@ assumes: none
c04_gumbel!(c04_gumbel_f32, f32);

// ---- C14: frame condition ---------------------------------------------------------------------
// Every write in the call tree of sample() is checked by CBMC's assigns-clause instrumentation against
// {the RNG, locals}.  A cached spare variate behind a Cell, a static counter, any write through &self
// makes "Check that ... is assignable" fail.
#[kani::modifies(rng)]
#[kani::ensures(|r: &f64| true)]
fn frame_gumbel_f64(d: &Gumbel<f64>, rng: &mut SymRng) -> f64 {
    d.sample(rng)
}

//@ id: c14_frame_gumbel_f64
//@ prop: C14
//@ tier: quick
//@ cap: 600
//@ funcs: Gumbel::<f64>::sample (every write in its call tree)
//@ bounds: arbitrary Gumbel value (fields any f64), arbitrary RNG state, 1 word
//@ assumes: libm::log by contract
#[kani::proof_for_contract(frame_gumbel_f64)]
#[kani::stub(libm::log, c_ln64)]
fn c14_frame_gumbel_f64() {
    let mut rng = SymRng::new(2); // all symbolic inputs are drawn first (replay alignment)
    let d = Gumbel::<f64> { location: kani::any(), scale: kani::any() };
    let before = (d.location.to_bits(), d.scale.to_bits());
    let _ = frame_gumbel_f64(&d, &mut rng);
    vassert!(before == (d.location.to_bits(), d.scale.to_bits()), "sampling changed the distribution value");
    kani::cover!(rng.pos == 1, "sample returned");
}

// ---- C07: location/scale act as an exact affine map on the parameter-free draw -------------------
macro_rules! c07_gumbel {
    ($name:ident, $f:ty, $oc:ident) => {
        vproof_free! {
            fn $name() {
                let mut rng = SymRng::new(1);
                let w0 = rng.words[0];
                let loc: $f = kani::any();
                let scale: $f = kani::any();
                let d = match Gumbel::<$f>::new(loc, scale) { Ok(d) => d, Err(_) => return };
                let x: $f = d.sample(&mut rng);
                vassert!(rng.pos == 1, "Gumbel: number of words consumed depends on the parameters");
                let g: f64 = if native() {
                    // native replay: the standard member (location 0, scale 1) on the same stream is -g; this keeps the
                    // replay independent of how the sampler obtains g (the property does not fix that)
                    let mut r2 = SymRng::from_words(rng.words, NW);
                    let z: $f = Gumbel::<$f>::new(0.0, 1.0).unwrap().sample(&mut r2);
                    vassert!(rng.pos == r2.pos, "Gumbel: number of words consumed depends on the parameters");
                    let want = loc + scale * z;
                    vassert!(x == want || (x != x && want != want), "Gumbel: sample is not location + scale * (standard member)");
                    return;
                } else {
                    vassert!(flog_n() == 2, "Gumbel: expected exactly two logarithms");
                    let (a0, _, r0) = flog_get(0);
                    let (a1, _, g) = flog_get(1);
                    vassert!(biteq64(a1, -r0), "Gumbel: second logarithm is not taken of -ln(u)");
                    g
                };
                // documented transform: location - scale * ln(-ln u)
                vassert!(biteq64(x as f64, (loc - scale * (g as $f)) as f64), "Gumbel: sample is not location - scale * g");
                kani::cover!(g == 2.0, "g = 2");
                kani::cover!(g == 0.5, "g = 1/2");
            }
        }
    };
}
//@ id: c07_gumbel_f64
//@ prop: C07
//@ tier: quick
//@ cap: 600
//@ funcs: Gumbel::<f64>::new; Gumbel::<f64>::sample
//@ bounds: every accepted (location, scale); every word; the standard quantity g = ln(-ln u) ranges over {0, -0, +-1, 2, 1/2, 3/4, -3} (free logged stub)
//@ assumes: libm::log replaced by a free logging stub (algebraic structure only)
c07_gumbel!(c07_gumbel_f64, f64, oc01_64);
//@ id: c07_gumbel_f32
//@ prop: C07
//@ tier: quick
//@ cap: 600
//@ funcs: Gumbel::<f32>::new; Gumbel::<f32>::sample
//@ bounds: as c07_gumbel_f64
//@ assumes: libm::logf replaced by a free logging stub
c07_gumbel!(c07_gumbel_f32, f32, oc01_32);
