// Harnesses for src/student_t.rs
#[allow(unused_imports)]
use std::{vec, vec::Vec};
use super::*;
use crate::__verif_support::*;

macro_rules! c04_t {
    ($name:ident, $f:ty) => {
        vproof! {
            fn $name() {
                let nu: $f = kani::any();
                let r = StudentT::<$f>::new(nu);
                let conds = [0.5 * nu <= 0.0 || nu != nu];
                let res = match &r { Ok(_) => None, Err(ChiSquaredError::DoFTooSmall) => Some(0) };
                c04_judge(res, conds);
                if let Ok(d) = r {
                    vassert!(d.dof.to_bits() == nu.to_bits(), "StudentT::new does not store nu");
                }
                kani::cover!(res.is_none(), "Ok reachable");
                kani::cover!(res == Some(0), "DoFTooSmall reachable");
            }
        }
    };
}
//@ id: c04_student_t_f64
//@ prop: C04
//@ tier: quick
//@ cap: 300
//@ funcs: StudentT::<f64>::new; ChiSquared::new
//@ bounds: every f64 bit pattern
c04_t!(c04_student_t_f64, f64);
//@ id: c04_student_t_f32
//@ prop: C04
//@ tier: quick
//@ cap: 300
//@ funcs: StudentT::<f32>::new
//@ bounds: every f32 bit pattern
c04_t!(c04_student_t_f32, f32);
