// Harnesses for src/unit_sphere.rs
//@@ needs: unit_circle.rs
#[allow(unused_imports)]
use std::{vec, vec::Vec};
use super::*;
use crate::__verif_support::*;
use crate::unit_circle::__verif::{cand32, cand64};

macro_rules! c12_sphere {
    ($name:ident, $f:ty, $cand:ident) => {
        vproof! {
            #[kani::unwind(4)]
            fn $name() {
                let mut rng = SymRng::new(4);
                let a = $cand(rng.words[0]);
                let b = $cand(rng.words[1]);
                let inside = a.abs() <= 0.5 && b.abs() <= 0.5;
                let outside = a.abs() >= 0.75 && b.abs() >= 0.75;
                let p: [$f; 3] = UnitSphere.sample(&mut rng);
                vassert!(rng.pos % 2 == 0, "UnitSphere: a trial must consume exactly two draws");
                if inside { vassert!(rng.pos == 2, "UnitSphere: candidate inside the disc was not accepted"); }
                if outside { vassert!(rng.pos != 2, "UnitSphere: candidate outside the disc was accepted"); }
                vassert!(p[0] == p[0] && p[1] == p[1] && p[2] == p[2], "UnitSphere: NaN coordinate");
                vassert!(p[2] <= 1.0 && p[2] >= -1.0, "UnitSphere: z outside [-1, 1]");
                if rng.pos == 2 {
                    // Marsaglia: (2 a sqrt(1-s), 2 b sqrt(1-s), 1 - 2 s): x, y carry the signs of the candidates
                    vassert!(!(p[0] > 0.0) || a > 0.0, "UnitSphere: x has not the sign of x1");
                    vassert!(!(p[0] < 0.0) || a < 0.0, "UnitSphere: x has not the sign of x1");
                    vassert!(!(p[1] > 0.0) || b > 0.0, "UnitSphere: y has not the sign of x2");
                    vassert!(!(p[1] < 0.0) || b < 0.0, "UnitSphere: y has not the sign of x2");
                }
                kani::cover!(rng.pos == 2 && inside, "accepted inside");
                kani::cover!(rng.pos == 4 && outside, "rejected outside, second trial accepted");
            }
        }
    };
}
//@ id: c12_unit_sphere_f32
//@ prop: C12
//@ tier: quick
//@ cap: 900
//@ funcs: UnitSphere::sample::<f32>; rand Uniform::<f32>::new/sample
//@ bounds: every stream, returns within 4 words; acceptance regions; no NaN; z in [-1,1]; signs of x,y
//@ assumes: libm::sqrtf exact characterisation
c12_sphere!(c12_unit_sphere_f32, f32, cand32);
//@ id: c12_unit_sphere_f64
//@ prop: C12
//@ tier: quick
//@ cap: 1200
//@ funcs: UnitSphere::sample::<f64>; rand Uniform::<f64>::new/sample
//@ bounds: as c12_unit_sphere_f32, 52-bit candidates
//@ assumes: libm::sqrt 1-ulp enclosure
c12_sphere!(c12_unit_sphere_f64, f64, cand64);
