// Harnesses for src/weighted/weighted_tree.rs (C09 structure, C10 sampling, C04 constructor part)
#[allow(unused_imports)]
use std::{vec, vec::Vec};
use super::*;
use crate::__verif_support::*;
use crate::weighted::Error as WErr;

/// weight types under test, with an exact wide image
pub(crate) trait TW:
    Copy + Clone + PartialEq + PartialOrd + SampleUniform + SubAssign<Self> + Weight + kani::Arbitrary
{
    const MAXW: i128;
    fn wide(self) -> i128;
    fn narrow(x: i128) -> Self;
}
macro_rules! impl_tw {
    ($($t:ty),*) => {$(
        impl TW for $t {
            const MAXW: i128 = <$t>::MAX as i128;
            #[inline(always)] fn wide(self) -> i128 { self as i128 }
            #[inline(always)] fn narrow(x: i128) -> Self { x as $t }
        }
    )*};
}
impl_tw!(u8, i8, u16, u32, i32, u64, i64);

/// definition of the heap of subtotals: sub[i] = w[i] + sub[2i+1] + sub[2i+2]
fn ref_sub<W: TW, const L: usize>(ws: &[W; L]) -> [i128; L] {
    let mut s = [0i128; L];
    let mut i = L;
    while i > 0 {
        i -= 1;
        let l = 2 * i + 1;
        let r = 2 * i + 2;
        s[i] = ws[i].wide() + if l < L { s[l] } else { 0 } + if r < L { s[r] } else { 0 };
    }
    s
}
fn total<W: TW, const L: usize>(ws: &[W; L]) -> i128 {
    let mut t = 0i128;
    let mut i = 0;
    while i < L {
        t += ws[i].wide();
        i += 1;
    }
    t
}
fn all_nonneg<W: TW, const L: usize>(ws: &[W; L]) -> bool {
    let mut i = 0;
    while i < L {
        if ws[i].wide() < 0 {
            return false;
        }
        i += 1;
    }
    true
}
/// an arbitrary *valid* weight list (what any history of successful operations can leave behind)
fn any_valid_list<W: TW, const L: usize>() -> [W; L] {
    let ws: [W; L] = kani::any();
    kani::assume(all_nonneg(&ws) && total(&ws) <= W::MAXW);
    ws
}
/// the state every successful history ending in list `ws` must be in (C09: == new(ws)); built
/// directly (one inductive step, DESIGN §6.1) with spare capacity so that push never reallocates
fn mk_tree<W: TW, const L: usize>(ws: &[W; L], cap: usize) -> WeightedTreeIndex<W> {
    let sub = ref_sub(ws);
    let mut v: Vec<W> = Vec::with_capacity(cap);
    let mut i = 0;
    while i < L {
        v.push(W::narrow(sub[i]));
        i += 1;
    }
    WeightedTreeIndex { subtotals: v }
}
/// field-wise: is `t` exactly the tree of list `ws`, and do the accessors agree with the list?
fn check_same<W: TW, const L: usize>(t: &WeightedTreeIndex<W>, ws: &[W; L]) {
    let sub = ref_sub(ws);
    vassert!(t.subtotals.len() == L, "tree: stored length differs from the weight list");
    vassert!(t.len() == L, "tree: len() differs from the weight list");
    vassert!(t.is_empty() == (L == 0), "tree: is_empty() wrong");
    vassert!(t.is_valid() == (total(ws) > 0), "tree: is_valid() differs from (total > 0)");
    let mut i = 0;
    while i < L {
        vassert!(t.subtotals[i].wide() == sub[i], "tree: subtotal differs from that of a fresh build");
        vassert!(t.get(i).wide() == ws[i].wide(), "tree: get(i) differs from the weight list");
        i += 1;
    }
}

fn h_new<W: TW, const L: usize>() -> u8 {
    let ws: [W; L] = kani::any();
    let r = WeightedTreeIndex::<W>::new(&ws);
    match r {
        Ok(t) => {
            vassert!(all_nonneg(&ws), "tree new: accepted a negative weight");
            vassert!(total(&ws) <= W::MAXW, "tree new: accepted a total that overflows");
            check_same(&t, &ws);
            core::mem::forget(t);
            1
        }
        Err(e) => {
            if !all_nonneg(&ws) {
                vassert!(e == WErr::InvalidWeight, "tree new: negative weight must give InvalidWeight");
            } else {
                vassert!(total(&ws) > W::MAXW, "tree new: error although list is valid");
                vassert!(e == WErr::Overflow, "tree new: overflowing total must give Overflow");
            }
            2
        }
    }
}

fn h_push<W: TW, const L: usize, const L1: usize>() -> u8 {
    // L1 == L + 1
    let ws: [W; L] = any_valid_list();
    let w: W = kani::any();
    let mut t = mk_tree(&ws, L + 1);
    let r = t.push(w);
    let mut ws1 = [w; L1];
    let mut i = 0;
    while i < L {
        ws1[i] = ws[i];
        i += 1;
    }
    let m = match r {
        Ok(()) => {
            vassert!(w.wide() >= 0, "tree push: accepted a negative weight");
            vassert!(total(&ws) + w.wide() <= W::MAXW, "tree push: accepted an overflowing total");
            check_same(&t, &ws1);
            1
        }
        Err(e) => {
            if w.wide() < 0 {
                vassert!(e == WErr::InvalidWeight, "tree push: negative weight must give InvalidWeight");
            } else {
                vassert!(total(&ws) + w.wide() > W::MAXW, "tree push: error although result is valid");
                vassert!(e == WErr::Overflow, "tree push: must report Overflow");
            }
            check_same(&t, &ws); // error leaves the structure unchanged
            2
        }
    };
    core::mem::forget(t);
    m
}

fn h_pop<W: TW, const L: usize, const L0: usize>() -> u8 {
    // L0 == L - 1, L >= 1
    let ws: [W; L] = any_valid_list();
    let mut t = mk_tree(&ws, L);
    let r = t.pop();
    vassert!(r.is_some(), "tree pop: None on non-empty tree");
    vassert!(r.unwrap().wide() == ws[L - 1].wide(), "tree pop: did not return the last weight");
    let mut ws0 = [ws[0]; L0];
    let mut i = 0;
    while i < L0 {
        ws0[i] = ws[i];
        i += 1;
    }
    check_same(&t, &ws0);
    core::mem::forget(t);
    1
}

fn h_update<W: TW, const L: usize>() -> u8 {
    let ws: [W; L] = any_valid_list();
    let i: usize = kani::any();
    kani::assume(i < L);
    let w: W = kani::any();
    let mut t = mk_tree(&ws, L);
    let r = t.update(i, w);
    let mut ws1 = ws;
    ws1[i] = w;
    let m = match r {
        Ok(()) => {
            vassert!(w.wide() >= 0, "tree update: accepted a negative weight");
            vassert!(total(&ws1) <= W::MAXW, "tree update: accepted an overflowing total");
            check_same(&t, &ws1);
            1 | if w.wide() > ws[i].wide() { 4 } else { 0 } | if w.wide() < ws[i].wide() { 8 } else { 0 }
        }
        Err(e) => {
            if w.wide() < 0 {
                vassert!(e == WErr::InvalidWeight, "tree update: negative weight must give InvalidWeight");
            } else {
                vassert!(total(&ws1) > W::MAXW, "tree update: error although result is valid");
                vassert!(e == WErr::Overflow, "tree update: must report Overflow");
            }
            check_same(&t, &ws);
            2
        }
    };
    core::mem::forget(t);
    m
}

/// `==` against a fresh build through the real derived PartialEq (small L: slice == is a loop)
fn h_eq_fresh<W: TW, const L: usize>() -> u8 {
    let ws: [W; L] = any_valid_list();
    let t = mk_tree(&ws, L);
    let f = WeightedTreeIndex::<W>::new(&ws).unwrap();
    vassert!(t == f, "tree: state built from subtotal definition != new(list)");
    core::mem::forget(t);
    core::mem::forget(f);
    1
}

fn h_empty<W: TW>() -> u8 {
    let mut t: WeightedTreeIndex<W> = WeightedTreeIndex { subtotals: Vec::new() };
    vassert!(t.pop().is_none(), "tree pop on empty must be None");
    vassert!(t.is_empty() && t.len() == 0 && !t.is_valid(), "empty tree accessors");
    let mut rng = SymRng::new(0);
    vassert!(t.try_sample(&mut rng) == Err(WErr::InsufficientNonZero), "empty tree must give InsufficientNonZero");
    1
}

/// proofs!{ name => unwind, required-outcome-mask, [calls...]; }  outcomes: 1 ok, 2 err, 4 up, 8 down
macro_rules! proofs {
    ($($name:ident => $unw:expr, $mask:expr, [$($call:expr),*];)*) => {$(
        #[kani::proof]
        #[kani::unwind($unw)]
        fn $name() {
            let mut m = 0u8;
            $( m |= $call; )*
            // vacuity witnesses: each required outcome is reachable (for at least one of the calls)
            kani::cover!($mask & 1 == 0 || m & 1 != 0, "Ok outcome reached");
            kani::cover!($mask & 2 == 0 || m & 2 != 0, "Err outcome reached");
            kani::cover!($mask & 4 == 0 || m & 4 != 0, "weight increased");
            kani::cover!($mask & 8 == 0 || m & 8 != 0, "weight decreased");
        }
    )*};
}

// ------------------------------------------------------------------------------------------
// C09, u8 (every weight value), quick
// ------------------------------------------------------------------------------------------

//@ id: c09_new_u8_l1_4
//@ prop: C09
//@ tier: quick
//@ cap: 600
//@ funcs: WeightedTreeIndex::<u8>::new; len; is_empty; is_valid; get; Weight::checked_add_assign
//@ bounds: every u8 weight vector of length 1..4
//@ assumes: none
proofs! { c09_new_u8_l1_4 => 10, 3, [h_new::<u8, 1>(), h_new::<u8, 2>(), h_new::<u8, 3>(), h_new::<u8, 4>()]; }

//@ id: c09_new_u8_l7
//@ prop: C09
//@ tier: quick
//@ cap: 600
//@ funcs: WeightedTreeIndex::<u8>::new; len; is_empty; is_valid; get
//@ bounds: every u8 weight vector of length 7 (three full levels)
proofs! { c09_new_u8_l7 => 10, 3, [h_new::<u8, 7>()]; }

//@ id: c09_new_i8_l5
//@ prop: C09
//@ tier: quick
//@ cap: 600
//@ funcs: WeightedTreeIndex::<i8>::new; len; is_valid; get
//@ bounds: every i8 weight vector of length 5 (negative weights included)
proofs! { c09_new_i8_l5 => 10, 3, [h_new::<i8, 5>()]; }

//@ id: c09_push_u8_l0_3
//@ prop: C09
//@ tier: quick
//@ cap: 600
//@ funcs: WeightedTreeIndex::<u8>::push; get; len; is_valid
//@ bounds: arbitrary valid pre-state of length 0..3 (one inductive step), every u8 pushed weight; includes the level-creating pushes 0->1, 1->2, 3->4
//@ assumes: pre-state = subtotal heap of an arbitrary valid list (the invariant `== new(list)`); Vec has spare capacity (no realloc)
proofs! { c09_push_u8_l0_3 => 10, 3, [h_push::<u8, 0, 1>(), h_push::<u8, 1, 2>(), h_push::<u8, 2, 3>(), h_push::<u8, 3, 4>()]; }

//@ id: c09_push_u8_l6
//@ prop: C09
//@ tier: quick
//@ cap: 600
//@ funcs: WeightedTreeIndex::<u8>::push
//@ bounds: arbitrary valid pre-state of length 6, every pushed weight
//@ assumes: pre-state invariant; spare capacity
proofs! { c09_push_u8_l6 => 10, 3, [h_push::<u8, 6, 7>()]; }

//@ id: c09_push_u8_l7
//@ prop: C09
//@ tier: quick
//@ cap: 600
//@ funcs: WeightedTreeIndex::<u8>::push
//@ bounds: arbitrary valid pre-state of length 7 -> 8 (creates the 4th level)
//@ assumes: pre-state invariant; spare capacity
proofs! { c09_push_u8_l7 => 12, 3, [h_push::<u8, 7, 8>()]; }

//@ id: c09_push_i8_l4
//@ prop: C09
//@ tier: quick
//@ cap: 600
//@ funcs: WeightedTreeIndex::<i8>::push
//@ bounds: arbitrary valid pre-state of length 4, every i8 pushed weight (negative -> InvalidWeight)
//@ assumes: pre-state invariant; spare capacity
proofs! { c09_push_i8_l4 => 10, 3, [h_push::<i8, 4, 5>()]; }

//@ id: c09_pop_u8_l1_4
//@ prop: C09
//@ tier: quick
//@ cap: 600
//@ funcs: WeightedTreeIndex::<u8>::pop
//@ bounds: arbitrary valid pre-state of length 1..4 (pop across the level boundaries 2->1, 4->3)
//@ assumes: pre-state invariant
proofs! { c09_pop_u8_l1_4 => 10, 1, [h_pop::<u8, 1, 0>(), h_pop::<u8, 2, 1>(), h_pop::<u8, 3, 2>(), h_pop::<u8, 4, 3>()]; }

//@ id: c09_pop_u8_l8
//@ prop: C09
//@ tier: quick
//@ cap: 600
//@ funcs: WeightedTreeIndex::<u8>::pop
//@ bounds: arbitrary valid pre-state of length 8 (pop shrinks past the 4th level)
//@ assumes: pre-state invariant
proofs! { c09_pop_u8_l8 => 12, 1, [h_pop::<u8, 8, 7>()]; }

//@ id: c09_update_u8_l1_4
//@ prop: C09
//@ tier: quick
//@ cap: 600
//@ funcs: WeightedTreeIndex::<u8>::update; get
//@ bounds: arbitrary valid pre-state of length 1..4, every in-range index, every new weight
//@ assumes: pre-state invariant
proofs! { c09_update_u8_l1_4 => 10, 15, [h_update::<u8, 1>(), h_update::<u8, 2>(), h_update::<u8, 3>(), h_update::<u8, 4>()]; }

//@ id: c09_update_u8_l7
//@ prop: C09
//@ tier: quick
//@ cap: 900
//@ funcs: WeightedTreeIndex::<u8>::update; get
//@ bounds: arbitrary valid pre-state of length 7 (inner nodes with two children), every index, every new weight
//@ assumes: pre-state invariant
proofs! { c09_update_u8_l7 => 10, 15, [h_update::<u8, 7>()]; }

//@ id: c09_update_i8_l5
//@ prop: C09
//@ tier: quick
//@ cap: 900
//@ funcs: WeightedTreeIndex::<i8>::update
//@ bounds: arbitrary valid pre-state of length 5, every index, every i8 new weight
//@ assumes: pre-state invariant
proofs! { c09_update_i8_l5 => 10, 15, [h_update::<i8, 5>()]; }

//@ id: c09_eq_fresh_u8_l3
//@ prop: C09
//@ tier: quick
//@ cap: 600
//@ funcs: WeightedTreeIndex::<u8>::new; PartialEq::eq (derived)
//@ bounds: every valid list of length 3; links the field-wise invariant to `== new(list)`
proofs! { c09_eq_fresh_u8_l3 => 10, 1, [h_eq_fresh::<u8, 3>()]; }

//@ id: c09_empty_u8
//@ prop: C09
//@ tier: quick
//@ cap: 300
//@ funcs: WeightedTreeIndex::<u8>::pop; try_sample; is_valid (empty tree)
//@ bounds: the empty tree
proofs! { c09_empty_u8 => 4, 1, [h_empty::<u8>()]; }

// ------------------------------------------------------------------------------------------
// C10: sampling is proportional — interval specification
// ------------------------------------------------------------------------------------------

/// post-order (left subtree, right subtree, self) of the implicit heap with L nodes
fn post_order<const L: usize>(i: usize, out: &mut [usize; L], n: &mut usize) {
    if i >= L {
        return;
    }
    post_order(2 * i + 1, out, n);
    post_order(2 * i + 2, out, n);
    out[*n] = i;
    *n += 1;
}

/// The real `try_sample` on an arbitrary valid state must return the unique index whose interval
/// [start_i, start_i + w_i) contains the target drawn by rand from the same words, where the
/// intervals are laid out consecutively in post-order.  Exactly w_i of the `total` targets map to
/// i (proportionality given rand's uniform target), and a zero-weight index owns no target.
fn h_sample<W: TW, const L: usize>() -> u8 {
    let ws: [W; L] = any_valid_list();
    let t = mk_tree(&ws, L);
    let words: [u64; NW] = kani::any();
    let mut r1 = SymRng::from_words(words, 2);
    let res = t.try_sample(&mut r1);
    let tot = total(&ws);
    let m = match res {
        Err(e) => {
            vassert!(tot == 0, "tree try_sample: error although total weight > 0");
            vassert!(e == WErr::InsufficientNonZero, "tree try_sample: wrong error for all-zero weights");
            vassert!(!t.is_valid(), "tree: is_valid() true but try_sample failed");
            2
        }
        Ok(idx) => {
            vassert!(tot > 0, "tree try_sample: Ok although all weights are zero");
            vassert!(t.is_valid(), "tree: try_sample Ok but is_valid() false");
            let mut r2 = SymRng::from_words(words, 2);
            let target: W = r2.random_range(W::ZERO..W::narrow(tot));
            let tg = target.wide();
            vassert!(r1.pos == r2.pos, "tree try_sample: consumed words beyond the target draw");
            vassert!(idx < L, "tree try_sample: index out of range");
            let mut order = [0usize; L];
            let mut n = 0usize;
            post_order::<L>(0, &mut order, &mut n);
            let mut start = 0i128;
            let mut k = 0;
            let mut found = false;
            while k < L {
                let i = order[k];
                if i == idx {
                    vassert!(start <= tg && tg < start + ws[i].wide(),
                        "tree try_sample: returned index does not own the drawn target (not proportional)");
                    found = true;
                }
                start += ws[i].wide();
                k += 1;
            }
            vassert!(found, "tree try_sample: index not in tree");
            vassert!(ws[idx].wide() > 0, "tree try_sample: returned an index of weight zero");
            1
        }
    };
    core::mem::forget(t);
    m
}

//@ id: c10_sample_u8_l1_3
//@ prop: C10
//@ tier: quick
//@ cap: 600
//@ funcs: WeightedTreeIndex::<u8>::try_sample; subtotal; get; rand RngExt::random_range / UniformInt::<u8>::sample_single (real code)
//@ bounds: arbitrary valid state of length 1..3 (every u8 weight list with total <= 255), every word stream (<= 2 words)
//@ assumes: state invariant (C09); target = what rand's random_range returns on the same words
proofs! { c10_sample_u8_l1_3 => 10, 3, [h_sample::<u8, 1>(), h_sample::<u8, 2>(), h_sample::<u8, 3>()]; }

//@ id: c10_sample_u8_l7
//@ prop: C10
//@ tier: quick
//@ cap: 900
//@ funcs: WeightedTreeIndex::<u8>::try_sample; subtotal; get; rand UniformInt::<u8>::sample_single
//@ bounds: arbitrary valid state of length 7 (three full levels), every word stream (<= 2 words)
//@ assumes: state invariant (C09); target = what rand's random_range returns on the same words
proofs! { c10_sample_u8_l7 => 10, 3, [h_sample::<u8, 7>()]; }

//@ id: c10_sample_u8_l6
//@ prop: C10
//@ tier: quick
//@ cap: 900
//@ funcs: WeightedTreeIndex::<u8>::try_sample
//@ bounds: arbitrary valid state of length 6 (non-power-of-two shape: node 2 has one child), every word stream
//@ assumes: state invariant (C09)
proofs! { c10_sample_u8_l6 => 10, 3, [h_sample::<u8, 6>()]; }

//@ id: c10_sample_i8_l4
//@ prop: C10
//@ tier: quick
//@ cap: 900
//@ funcs: WeightedTreeIndex::<i8>::try_sample; rand UniformInt::<i8>::sample_single
//@ bounds: arbitrary valid state of length 4 (signed weight type), every word stream
//@ assumes: state invariant (C09)
proofs! { c10_sample_i8_l4 => 10, 3, [h_sample::<i8, 4>()]; }

// ------------------------------------------------------------------------------------------
// float weights: the documented guarantee "sample will not panic if is_valid() returns true"
// ------------------------------------------------------------------------------------------
macro_rules! c10_tree_float {
    ($name:ident, $f:ty, $l:expr, $mode:expr) => {
        #[kani::proof]
        #[kani::unwind(6)]
        fn $name() {
            let mut rng = SymRng::new(1); // all symbolic inputs are drawn first (replay alignment)
            let ws: [$f; $l] = kani::any();
            let mut i = 0;
            while i < $l {
                kani::assume(ws[i] >= 0.0 && ws[i] <= 1e30);
                i += 1;
            }
            // region of the recorded finding tree_float_assert: the weights are not all representable sums
            // (some weight is not an integer below 2^20, so that subtotals round)
            let mut exact = true;
            let mut i = 0;
            while i < $l {
                if !(ws[i] <= 1048576.0 && ws[i] == (ws[i] as u32) as $f) { exact = false; }
                i += 1;
            }
            if $mode == 0 { kani::assume(exact); } else { kani::assume(!exact); }
            let t = match WeightedTreeIndex::<$f>::new(&ws) { Ok(t) => t, Err(_) => return };
            if t.is_valid() {
                let r = t.try_sample(&mut rng);
                vassert!(r.is_ok(), "tree<float>: try_sample failed although is_valid()");
                let idx = r.unwrap();
                vassert!(idx < $l, "tree<float>: index out of range");
                vassert!(ws[idx] > 0.0, "tree<float>: returned an index of weight zero");
                kani::cover!(idx == $l - 1, "last index sampled");
            }
            core::mem::forget(t);
        }
    };
}
//@ id: c10_tree_f32_l3_exact
//@ besteffort: yes
//@ prop: C10
//@ tier: thorough
//@ cap: 1500
//@ funcs: WeightedTreeIndex::<f32>::new; try_sample (incl. its two internal assert!s); get; rand UniformFloat::<f32>::sample_single
//@ bounds: 3 f32 weights that are integers <= 2^20 (all subtotals exact); every word
//@ assumes: weights outside this class are the region of known finding tree_float_assert (decided by the witness harness)
c10_tree_float!(c10_tree_f32_l3_exact, f32, 3, 0);
//@ id: c10_tree_f32_l3_kf_rounding
//@ prop: C10
//@ tier: quick
//@ cap: 900
//@ expect: fail
//@ funcs: WeightedTreeIndex::<f32>::try_sample
//@ bounds: 3 f32 weights in [0, 1e30], not all small integers
c10_tree_float!(c10_tree_f32_l3_kf_rounding, f32, 3, 1);

// ------------------------------------------------------------------------------------------
// C09, wider integer types (totals near u64::MAX / i64::MAX / u32::MAX)
// ------------------------------------------------------------------------------------------

//@ id: c09_ops_u64_l3
//@ prop: C09
//@ tier: quick
//@ cap: 900
//@ funcs: WeightedTreeIndex::<u64>::new; push; pop; update; get; len; is_valid
//@ bounds: every u64 weight list of length 3 (new), arbitrary valid pre-state of length 3 (push, pop, update)
//@ assumes: pre-state invariant; spare capacity
proofs! { c09_ops_u64_l3 => 8, 15, [h_new::<u64, 3>(), h_push::<u64, 3, 4>(), h_pop::<u64, 3, 2>(), h_update::<u64, 3>()]; }

//@ id: c09_ops_i64_l4
//@ besteffort: yes
//@ prop: C09
//@ tier: thorough
//@ cap: 900
//@ funcs: WeightedTreeIndex::<i64>::new; push; update
//@ bounds: every i64 weight list of length 4 (new), arbitrary valid pre-state of length 4 (push, update); negative weights rejected
//@ assumes: pre-state invariant; spare capacity
proofs! { c09_ops_i64_l4 => 8, 15, [h_new::<i64, 4>(), h_push::<i64, 4, 5>(), h_update::<i64, 4>()]; }

//@ id: c09_ops_u32_l5
//@ besteffort: yes
//@ prop: C09
//@ tier: thorough
//@ cap: 900
//@ funcs: WeightedTreeIndex::<u32>::new; push; pop; update
//@ bounds: length 5, u32 weights
//@ assumes: pre-state invariant; spare capacity
proofs! { c09_ops_u32_l5 => 9, 15, [h_new::<u32, 5>(), h_push::<u32, 5, 6>(), h_pop::<u32, 5, 4>(), h_update::<u32, 5>()]; }

//@ id: c09_ops_i64_l3
//@ besteffort: yes
//@ prop: C09
//@ tier: thorough
//@ cap: 900
//@ funcs: WeightedTreeIndex::<i64>::new; push; update
//@ bounds: every i64 weight list of length 3 (new), arbitrary valid pre-state of length 3 (push, update); negative weights rejected
//@ assumes: pre-state invariant; spare capacity
proofs! { c09_ops_i64_l3 => 8, 15, [h_new::<i64, 3>(), h_push::<i64, 3, 4>(), h_update::<i64, 3>()]; }

// ------------------------------------------------------------------------------------------
// float weights: invalid weights (NaN, negative, -inf) are rejected by all three entry points and leave the
// structure unchanged (C09 / C04).  No arithmetic is needed for these paths.
// ------------------------------------------------------------------------------------------

//@ id: c09_float_invalid_weight
//@ prop: C09
//@ tier: quick
//@ cap: 600
//@ funcs: WeightedTreeIndex::<f32>::new; push; update (rejection of NaN / negative weights); len; get
//@ bounds: tree of two arbitrary non-negative f32 weights <= 1e30 (built by new); invalid weight w: NaN or < 0; every in-range index
//@ assumes: none
#[kani::proof]
#[kani::unwind(6)]
fn c09_float_invalid_weight() {
    let a: f32 = kani::any();
    let b: f32 = kani::any();
    kani::assume(a >= 0.0 && a <= 1e30 && b >= 0.0 && b <= 1e30);
    let w: f32 = kani::any();
    kani::assume(w != w || w < 0.0);
    let i: usize = kani::any();
    kani::assume(i < 2);
    let mut t = WeightedTreeIndex::<f32>::new(&[a, b]).unwrap();
    let s0 = (t.subtotals[0].to_bits(), t.subtotals[1].to_bits());
    vassert!(t.update(i, w) == Err(WErr::InvalidWeight), "tree<f32>::update: NaN / negative weight must give InvalidWeight");
    vassert!(t.push(w) == Err(WErr::InvalidWeight), "tree<f32>::push: NaN / negative weight must give InvalidWeight");
    vassert!(t.len() == 2 && (t.subtotals[0].to_bits(), t.subtotals[1].to_bits()) == s0, "tree<f32>: a rejected weight changed the structure");
    vassert!(matches!(WeightedTreeIndex::<f32>::new(&[a, w]), Err(WErr::InvalidWeight)), "tree<f32>::new: NaN / negative weight must give InvalidWeight");
    vassert!(matches!(WeightedTreeIndex::<f32>::new(&[w, b, a]), Err(WErr::InvalidWeight)), "tree<f32>::new: NaN / negative weight at an inner node must give InvalidWeight");
    kani::cover!(w != w, "NaN");
    kani::cover!(w < 0.0, "negative");
    core::mem::forget(t);
}

// ------------------------------------------------------------------------------------------
// C14: `tree.sample_iter(rng)` (whatever method that resolves to) and repeated `sample` agree on the same stream
// ------------------------------------------------------------------------------------------

//@ id: c14_tree_sample_iter
//@ prop: C14
//@ tier: quick
//@ cap: 900
//@ funcs: WeightedTreeIndex::<u8>::sample; sample_iter (rand's Distribution::sample_iter adaptor unless the type shadows it)
//@ bounds: arbitrary valid tree of 3 u8 weights with total > 0; every word stream; first two draws (each accepted within 2 words)
//@ assumes: state invariant (C09)
#[kani::proof]
#[kani::unwind(8)]
fn c14_tree_sample_iter() {
    let words: [u64; NW] = kani::any();
    let ws: [u8; 3] = any_valid_list();
    kani::assume(total(&ws) > 0);
    let t1 = mk_tree(&ws, 3);
    let t2 = mk_tree(&ws, 3);
    let mut r1 = SymRng::from_words(words, 4);
    let mut r2 = SymRng::from_words(words, 4);
    let a0 = t1.sample(&mut r1);
    let a1 = t1.sample(&mut r1);
    let mut it = t2.sample_iter(&mut r2);
    let b0 = it.next().unwrap();
    let b1 = it.next().unwrap();
    drop(it);
    vassert!(a0 == b0 && a1 == b1, "WeightedTreeIndex: sample_iter and repeated sample disagree on the same stream");
    vassert!(r1.pos == r2.pos, "WeightedTreeIndex: sample_iter and repeated sample consume different numbers of words");
    kani::cover!(a0 != a1, "two different indices");
    core::mem::forget(t1);
}
