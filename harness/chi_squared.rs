// Harnesses for src/chi_squared.rs
#[allow(unused_imports)]
use std::{vec, vec::Vec};
use super::*;
use crate::__verif_support::*;

macro_rules! c04_chi {
    ($name:ident, $f:ty) => {
        vproof! {
            fn $name() {
                let k: $f = kani::any();
                let r = ChiSquared::<$f>::new(k);
                // DoFTooSmall: `0.5 * k <= 0` or nan
                let conds = [0.5 * k <= 0.0 || k != k];
                let res = match &r { Ok(_) => None, Err(Error::DoFTooSmall) => Some(0) };
                c04_judge(res, conds);
                if let Ok(d) = r {
                    match d.repr {
                        DoFExactlyOne => vassert!(k == 1.0, "ChiSquared: DoFExactlyOne for k != 1"),
                        DoFAnythingElse(_) => vassert!(k != 1.0, "ChiSquared: Gamma variant for k == 1"),
                    }
                }
                kani::cover!(res.is_none() && k == 1.0, "Ok k=1");
                kani::cover!(res.is_none() && k != 1.0, "Ok other");
                kani::cover!(res == Some(0), "DoFTooSmall reachable");
            }
        }
    };
}
//@ id: c04_chi_squared_f64
//@ prop: C04
//@ tier: quick
//@ cap: 300
//@ funcs: ChiSquared::<f64>::new; Gamma::new
//@ bounds: every f64 bit pattern (includes subnormal k where 0.5*k underflows, +inf)
//@ assumes: libm::sqrt by contract
c04_chi!(c04_chi_squared_f64, f64);
//@ id: c04_chi_squared_f32
//@ prop: C04
//@ tier: quick
//@ cap: 300
//@ funcs: ChiSquared::<f32>::new
//@ bounds: every f32 bit pattern
//@ assumes: libm::sqrtf by contract
c04_chi!(c04_chi_squared_f32, f32);

// ------------------------------------------------------------------------------------------
// C03: ChiSquared(1) = z^2
// ------------------------------------------------------------------------------------------
macro_rules! c03_chi_one {
    ($name:ident, $f:ty) => {
        vproof_zstub! {
            fn $name() {
                let mut rng = SymRng::new(1);
                let d = ChiSquared::<$f>::new(1.0).unwrap();
                let x: $f = d.sample(&mut rng);
                vassert!(x == x && x >= 0.0 && x.is_finite(), "ChiSquared(1) sample is not a finite non-negative number");
                vassert!(rng.pos == 1, "ChiSquared(1) is one standard normal draw");
                kani::cover!(true, "reached");
            }
        }
    };
}
//@ id: c03_chi_squared_one_f64
//@ prop: C03
//@ tier: quick
//@ cap: 300
//@ funcs: ChiSquared::<f64>::new (k = 1 branch); ChiSquared::<f64>::sample
//@ bounds: k = 1; every word
//@ assumes: utils::ziggurat by contract
c03_chi_one!(c03_chi_squared_one_f64, f64);
//@ id: c03_chi_squared_one_f32
//@ prop: C03
//@ tier: quick
//@ cap: 300
//@ funcs: ChiSquared::<f32>::new (k = 1 branch); ChiSquared::<f32>::sample
//@ bounds: k = 1; every word
//@ assumes: utils::ziggurat by contract
c03_chi_one!(c03_chi_squared_one_f32, f32);
