// Harnesses for src/multi/dirichlet.rs (C11; constructor part of C04)
//@@ needs: beta.rs
#[allow(unused_imports)]
use std::{vec, vec::Vec};
use super::*;
use crate::__verif_support::*;
use crate::multi::MultiDistribution;

fn err_idx(e: &Error) -> usize {
    match e {
        Error::AlphaTooShort => 0,
        Error::AlphaTooSmall => 1,
        Error::AlphaSubnormal => 2,
        Error::AlphaInfinite => 3,
        Error::FailedToCreateGamma => 4,
        Error::FailedToCreateBeta => 5,
        Error::SizeTooSmall => 6,
    }
}

macro_rules! c11_new {
    ($name:ident, $f:ty, $l:expr, $minpos:expr) => {
        vproof_lite! {
            #[kani::unwind(9)]
            fn $name() {
                let alpha: [$f; $l] = kani::any();
                let r = Dirichlet::<$f>::new(&alpha);
                // AlphaTooShort: len < 2; AlphaTooSmall: `alpha <= 0.0` or nan; AlphaSubnormal; AlphaInfinite
                let mut small = false; let mut sub = false; let mut inf = false; let mut all_le = true;
                let mut i = 0;
                while i < $l {
                    let a = alpha[i];
                    if a <= 0.0 || a != a { small = true; }
                    if a > 0.0 && a < $minpos { sub = true; }
                    if a == <$f>::INFINITY { inf = true; }
                    if !(a <= 0.1) { all_le = false; }
                    i += 1;
                }
                let res = match &r { Ok(_) => None, Err(e) => Some(err_idx(e)) };
                c04_judge(res, [$l < 2, small, sub, inf, false, false, false]);
                if let Ok(d) = r {
                    vassert!(d.sample_len() == $l, "Dirichlet::sample_len differs from alpha.len()");
                    match &d.repr {
                        DirichletRepr::FromBeta(b) => {
                            vassert!(all_le, "Dirichlet: Beta method chosen although some alpha > 0.1");
                            vassert!(b.samplers.len() == $l - 1, "Dirichlet(FromBeta): wrong number of Beta samplers");
                            // stick-breaking chain: sampler i is Beta(alpha_i, alpha_{i+1} + ... + alpha_{n-1})
                            // (Beta stores (max, min) for min <= 1, i.e. always here, and remembers the swap)
                            let mut tail: $f = alpha[$l - 1];
                            let mut i = $l - 1;
                            while i > 0 {
                                i -= 1;
                                let (sa, sb, sw) = crate::beta::__verif::beta_params(&b.samplers[i]);
                                let (x, y) = (alpha[i], tail);
                                let (hi, lo) = if x < y { (y, x) } else { (x, y) };
                                vassert!(sa.to_bits() == hi.to_bits() && sb.to_bits() == lo.to_bits(),
                                    "Dirichlet(FromBeta): Beta sampler parameters are not (alpha_i, sum of the later alphas)");
                                vassert!(sw == (x < y), "Dirichlet(FromBeta): Beta sampler has its parameters swapped");
                                tail = tail + alpha[i];
                            }
                        }
                        DirichletRepr::FromGamma(g) => {
                            vassert!(!all_le, "Dirichlet: Gamma method chosen although all alpha <= 0.1");
                            vassert!(g.samplers.len() == $l, "Dirichlet(FromGamma): wrong number of Gamma samplers");
                        }
                    }
                    core::mem::forget(d);
                }
                kani::cover!(res.is_none() && all_le, "Ok FromBeta");
                kani::cover!(res.is_none() && !all_le, "Ok FromGamma");
                kani::cover!(res == Some(1), "AlphaTooSmall");
                kani::cover!(res == Some(2), "AlphaSubnormal");
                kani::cover!(res == Some(3), "AlphaInfinite");
            }
        }
    };
}
//@ id: c11_new_f64_l3
//@ besteffort: yes
//@ prop: C11
//@ tier: thorough
//@ cap: 1500
//@ funcs: Dirichlet::<f64>::new; DirichletFromBeta::new (reverse cumulative sum, Beta chain); DirichletFromGamma::new; Beta::new; Gamma::new; sample_len
//@ bounds: every alpha vector of length 3 (all f64 bit patterns)
//@ assumes: libm::sqrt by (class) contract
c11_new!(c11_new_f64_l3, f64, 3, f64::MIN_POSITIVE);
//@ id: c11_new_f32_l3
//@ prop: C11
//@ tier: quick
//@ cap: 1500
//@ funcs: Dirichlet::<f32>::new; DirichletFromBeta::new; DirichletFromGamma::new
//@ bounds: every alpha vector of length 3 (all f32 bit patterns)
//@ assumes: libm::sqrtf by (class) contract
c11_new!(c11_new_f32_l3, f32, 3, f32::MIN_POSITIVE);
//@ id: c11_new_f32_l4
//@ prop: C11
//@ tier: quick
//@ cap: 1500
//@ funcs: Dirichlet::<f32>::new; DirichletFromBeta::new (reverse cumulative sum over 3 tails)
//@ bounds: every alpha vector of length 4 (all f32 bit patterns)
//@ assumes: libm::sqrtf by (class) contract
c11_new!(c11_new_f32_l4, f32, 4, f32::MIN_POSITIVE);
//@ id: c11_new_f64_l4
//@ besteffort: yes
//@ prop: C11
//@ tier: thorough
//@ cap: 1500
//@ funcs: Dirichlet::<f64>::new; DirichletFromBeta::new (reverse cumulative sum over 3 tails)
//@ bounds: every alpha vector of length 4
//@ assumes: libm::sqrt by (class) contract
c11_new!(c11_new_f64_l4, f64, 4, f64::MIN_POSITIVE);
//@ id: c11_new_f64_l2
//@ besteffort: yes
//@ prop: C11
//@ tier: thorough
//@ cap: 900
//@ funcs: Dirichlet::<f64>::new
//@ bounds: every alpha vector of length 2
//@ assumes: libm::sqrt by (class) contract
c11_new!(c11_new_f64_l2, f64, 2, f64::MIN_POSITIVE);

//@ id: c11_new_short
//@ prop: C11
//@ tier: quick
//@ cap: 300
//@ funcs: Dirichlet::<f64>::new (length check)
//@ bounds: alpha of length 0 and 1
vproof! {
    #[kani::unwind(4)]
    fn c11_new_short() {
        let a: f64 = kani::any();
        vassert!(matches!(Dirichlet::<f64>::new(&[a]), Err(Error::AlphaTooShort)), "Dirichlet::new: one entry must give AlphaTooShort");
        vassert!(matches!(Dirichlet::<f64>::new(&[]), Err(Error::AlphaTooShort)), "Dirichlet::new: empty alpha must give AlphaTooShort");
        kani::cover!(true, "reached");
    }
}

// ---- sampling: stick-breaking path, every output entry written, simplex coordinates ----------------
macro_rules! c11_sample_beta {
    ($name:ident, $f:ty) => {
        vproof! {
            #[kani::unwind(4)]
            fn $name() {
                let mut rng = SymRng::new(4); // all symbolic inputs are drawn first (replay alignment)
                // concrete alpha (all <= 0.1 -> stick-breaking): Beta constants fold, only the draws are symbolic
                let alpha: [$f; 3] = [0.05, 0.02, 0.03];
                let d = match Dirichlet::<$f>::new(&alpha) { Ok(d) => d, Err(_) => return };
                // one Cheng-BC trial per Beta sampler (2 words each)
                // the caller's buffer holds arbitrary old contents: every entry must be overwritten
                let mut out: [$f; 3] = [<$f>::NAN; 3];
                d.sample_to_slice(&mut rng, &mut out);
                let mut i = 0;
                while i < 3 {
                    vassert!(out[i] == out[i], "Dirichlet sample has a NaN / unwritten component");
                    vassert!(out[i] >= 0.0 && out[i] <= 1.0, "Dirichlet component outside [0, 1]");
                    i += 1;
                }
                kani::cover!(out[0] == 1.0, "first component takes all the mass");
                kani::cover!(out[0] < 1.0 && out[0] > 0.0, "interior point");
                core::mem::forget(d);
            }
        }
    };
}
//@ id: c11_sample_beta_f32
//@ besteffort: yes
//@ prop: C11
//@ tier: thorough
//@ cap: 1500
//@ funcs: DirichletFromBeta::<f32>::sample_to_slice; Beta::<f32>::sample (BC trial); Dirichlet::new
//@ bounds: alpha = [0.05, 0.02, 0.03]; each Beta accepted at its first trial (4 words, all values); output buffer pre-filled with NaN
//@ assumes: libm::{logf,expf} by contract
c11_sample_beta!(c11_sample_beta_f32, f32);
//@ id: c11_sample_beta_f64
//@ besteffort: yes
//@ prop: C11
//@ tier: thorough
//@ cap: 1500
//@ funcs: DirichletFromBeta::<f64>::sample_to_slice; Beta::<f64>::sample (BC trial); Dirichlet::new
//@ bounds: alpha = [0.05, 0.02, 0.03]; each Beta accepted at its first trial (4 words); output buffer pre-filled with NaN
//@ assumes: libm::{log,exp} by contract
c11_sample_beta!(c11_sample_beta_f64, f64);

// ------------------------------------------------------------------------------------------
// stick-breaking structure with *free* libm stubs: whatever values ln/exp take, one call of sample_to_slice
// must overwrite every component of the caller's buffer (C11: sample and sample_to_slice agree; C14: the result
// does not depend on what earlier calls left in the buffer) and consume two words per accepted Beta trial.
// exp may return +inf, which makes a Beta variate exactly 1 and the remaining stick exactly 0.
// ------------------------------------------------------------------------------------------
fn d_ln() -> f64 { let k: u8 = kani::any(); match k % 3 { 0 => -1.0, 1 => 0.5, _ => 2.0 } }
fn d_exp() -> f64 { let k: u8 = kani::any(); match k % 3 { 0 => 0.5, 1 => 2.0, _ => f64::INFINITY } }
fn d_ln64(_x: f64) -> f64 { d_ln() }
fn d_ln32(_x: f32) -> f32 { d_ln() as f32 }
fn d_exp64(_x: f64) -> f64 { d_exp() }
fn d_exp32(_x: f32) -> f32 { d_exp() as f32 }

macro_rules! c11_written {
    ($name:ident, $f:ty) => {
        #[kani::proof]
        #[kani::stub(libm::log, d_ln64)]
        #[kani::stub(libm::logf, d_ln32)]
        #[kani::stub(libm::exp, d_exp64)]
        #[kani::stub(libm::expf, d_exp32)]
        #[kani::unwind(5)]
        fn $name() {
            let mut rng = SymRng::new(4);
            let alpha: [$f; 3] = [0.05, 0.02, 0.03];
            let d = match Dirichlet::<$f>::new(&alpha) { Ok(d) => d, Err(_) => return };
            let mut out: [$f; 3] = [<$f>::NAN; 3];
            d.sample_to_slice(&mut rng, &mut out);
            vassert!(out[0] == out[0] && out[1] == out[1] && out[2] == out[2], "Dirichlet::sample_to_slice left a component of the caller's buffer unwritten");
            vassert!(rng.pos == 4, "Dirichlet(stick-breaking, 3 components): two accepted Beta trials consume 4 words");
            kani::cover!(out[0] == 1.0, "a Beta variate of exactly 1 (stick used up)");
            kani::cover!(out[0] < 1.0, "interior");
            core::mem::forget(d);
        }
    };
}
//@ id: c11_all_written_f64
//@ besteffort: yes
//@ prop: C11
//@ tier: thorough
//@ cap: 900
//@ funcs: DirichletFromBeta::<f64>::sample_to_slice; Beta::<f64>::sample; Dirichlet::new
//@ bounds: alpha = [0.05, 0.02, 0.03]; every word, both Beta variates accepted at their first trial (4 words); output buffer pre-filled with NaN
//@ assumes: libm::log/exp replaced by free stubs over {-1, 1/2, 2} resp. {1/2, 2, +inf} (structure only, not values)
c11_written!(c11_all_written_f64, f64);
//@ id: c11_all_written_f32
//@ prop: C11
//@ tier: quick
//@ cap: 900
//@ funcs: DirichletFromBeta::<f32>::sample_to_slice; Beta::<f32>::sample; Dirichlet::new
//@ bounds: as c11_all_written_f64
//@ assumes: libm::logf/expf replaced by free stubs
c11_written!(c11_all_written_f32, f32);

// ------------------------------------------------------------------------------------------
// method switch and chain length for vectors longer than the all-bit-patterns harnesses reach: all entries 0.05
// except one entry of arbitrary value at an arbitrary position.  Beta method iff that entry is <= 0.1 too;
// sampler counts and sample_len follow the length.
// ------------------------------------------------------------------------------------------
macro_rules! c11_new_long {
    ($name:ident, $f:ty, $l:expr) => {
        vproof_lite! {
            #[kani::unwind(23)]
            fn $name() {
                let k: usize = kani::any();
                let a: $f = kani::any();
                kani::assume(k < $l);
                kani::assume(a >= 1e-3 && a <= 1e4);
                let mut alpha: [$f; $l] = [0.05; $l];
                alpha[k] = a;
                let r = Dirichlet::<$f>::new(&alpha);
                vassert!(r.is_ok(), "Dirichlet::new rejects a vector of positive, finite, normal entries");
                if let Ok(d) = r {
                    vassert!(d.sample_len() == $l, "Dirichlet::sample_len differs from alpha.len()");
                    match &d.repr {
                        DirichletRepr::FromBeta(b) => {
                            vassert!(a <= 0.1, "Dirichlet: Beta method chosen although some alpha > 0.1");
                            vassert!(b.samplers.len() == $l - 1, "Dirichlet(FromBeta): wrong number of Beta samplers");
                            // (the algorithm of the Beta samplers is judged on concrete vectors by c11_beta_bc_*: with it
                            // this harness did not finish within the quick-tier limit)
                        }
                        DirichletRepr::FromGamma(g) => {
                            vassert!(!(a <= 0.1), "Dirichlet: Gamma method chosen although all alpha <= 0.1");
                            vassert!(g.samplers.len() == $l, "Dirichlet(FromGamma): wrong number of Gamma samplers");
                        }
                    }
                    core::mem::forget(d);
                }
                kani::cover!(a <= 0.1, "all small");
                kani::cover!(a > 0.1, "one large");
            }
        }
    };
}
//@ id: c11_new_f32_l17
//@ prop: C11
//@ tier: quick
//@ cap: 900
//@ funcs: Dirichlet::<f32>::new; DirichletFromBeta::new; DirichletFromGamma::new
//@ bounds: length 17; sixteen entries 0.05, one entry of any value in [1e-3, 1e4] at any position
//@ assumes: libm::sqrtf by (class) contract
c11_new_long!(c11_new_f32_l17, f32, 17);
//@ id: c11_new_f64_l17
//@ besteffort: yes
//@ prop: C11
//@ tier: thorough
//@ cap: 1500
//@ funcs: Dirichlet::<f64>::new; DirichletFromBeta::new; DirichletFromGamma::new
//@ bounds: as c11_new_f32_l17
//@ assumes: libm::sqrt by (class) contract
c11_new_long!(c11_new_f64_l17, f64, 17);

// ------------------------------------------------------------------------------------------
// stick-breaking over 4 components with *value-free* libm stubs: ln returns any finite value, exp any value in
// [0, +inf].  Whatever the Beta acceptance tests decide and whatever w = a * exp(v) is, every component must be
// a number in [0, 1] and written.  (A counterexample here uses libm values the real functions may not return:
// if it does not reproduce natively the check ends INCONCLUSIVE, not VIOLATION.)
// ------------------------------------------------------------------------------------------
fn v_ln32(_x: f32) -> f32 { let r: f32 = kani::any(); kani::assume(r == r && r > f32::NEG_INFINITY && r < f32::INFINITY); r }
fn v_exp32(_x: f32) -> f32 { let r: f32 = kani::any(); kani::assume(r >= 0.0); r }
//@ id: c11_simplex_free_f32_l4
//@ prop: C11
//@ tier: quick
//@ cap: 900
//@ funcs: DirichletFromBeta::<f32>::sample_to_slice; Beta::<f32>::sample (BC); Dirichlet::new
//@ bounds: alpha = [0.05, 0.02, 0.03, 0.04]; every word; all three Beta variates accepted at their first trial (6 words); buffer pre-filled with NaN
//@ assumes: libm::logf replaced by an arbitrary finite value, libm::expf by an arbitrary value in [0, +inf] (over-approximation of the real functions)
#[kani::proof]
#[kani::stub(libm::logf, v_ln32)]
#[kani::stub(libm::expf, v_exp32)]
#[kani::unwind(6)]
fn c11_simplex_free_f32_l4() {
    let mut rng = SymRng::new(6);
    let alpha: [f32; 4] = [0.05, 0.02, 0.03, 0.04];
    let d = match Dirichlet::<f32>::new(&alpha) { Ok(d) => d, Err(_) => return };
    let mut out: [f32; 4] = [f32::NAN; 4];
    d.sample_to_slice(&mut rng, &mut out);
    let mut i = 0;
    while i < 4 {
        vassert!(out[i] == out[i], "Dirichlet sample has a NaN / unwritten component");
        vassert!(out[i] >= 0.0 && out[i] <= 1.0, "Dirichlet component outside [0, 1]");
        i += 1;
    }
    vassert!(rng.pos == 6, "Dirichlet(stick-breaking, 4 components): three accepted Beta trials consume 6 words");
    kani::cover!(out[0] == 1.0, "stick used up by the first component");
    kani::cover!(out[0] > 0.0 && out[0] < 1.0 && out[3] > 0.0, "interior point");
    core::mem::forget(d);
}


// concrete long vectors whose tail sums exceed 1 (and 2): Beta method, and every Beta(alpha_i, tail_i) sampler uses
// algorithm BC because min(alpha_i, tail_i) <= 0.1 <= 1, whatever the tail
macro_rules! c11_beta_bc {
    ($name:ident, $f:ty, $l:expr, $v:expr) => {
        vproof_lite! {
            #[kani::unwind(23)]
            fn $name() {
                let alpha: [$f; $l] = [$v; $l];
                let d = match Dirichlet::<$f>::new(&alpha) { Ok(d) => d, Err(_) => { vassert!(false, "Dirichlet::new rejects a valid vector"); return } };
                match &d.repr {
                    DirichletRepr::FromBeta(b) => {
                        vassert!(b.samplers.len() == $l - 1, "Dirichlet(FromBeta): wrong number of Beta samplers");
                        let mut i = 0;
                        while i < $l - 1 {
                            vassert!(crate::beta::__verif::beta_is_bc(&b.samplers[i]), "Dirichlet(FromBeta): a Beta(alpha_i <= 0.1, tail) sampler uses algorithm BB (for min > 1)");
                            i += 1;
                        }
                    }
                    DirichletRepr::FromGamma(_) => vassert!(false, "Dirichlet: Gamma method chosen although all alpha <= 0.1"),
                }
                kani::cover!(true, "reached");
                core::mem::forget(d);
            }
        }
    };
}
//@ id: c11_beta_bc_f32_l17
//@ prop: C11
//@ tier: quick
//@ cap: 600
//@ funcs: Dirichlet::<f32>::new; DirichletFromBeta::new; Beta::<f32>::new (algorithm selection)
//@ bounds: alpha = [0.09; 17] (tail sums up to 1.44)
//@ assumes: libm::sqrtf by (class) contract
c11_beta_bc!(c11_beta_bc_f32_l17, f32, 17, 0.09);
//@ id: c11_beta_bc_f64_l17
//@ besteffort: yes
//@ prop: C11
//@ tier: thorough
//@ cap: 1500
//@ funcs: Dirichlet::<f64>::new; DirichletFromBeta::new; Beta::<f64>::new (algorithm selection)
//@ bounds: alpha = [0.1; 17] (tail sums up to 1.6)
//@ assumes: libm::sqrt by (class) contract
c11_beta_bc!(c11_beta_bc_f64_l17, f64, 17, 0.1);
