// Harnesses for src/pareto.rs
#[allow(unused_imports)]
use std::{vec, vec::Vec};
use super::*;
use crate::__verif_support::*;

macro_rules! c03_pareto {
    ($name:ident, $f:ty, $minsc:expr, $maxsc:expr, $minsh:expr, $finsc:expr) => {
        vproof! {
            fn $name() {
                let mut rng = SymRng::new(1);
                let scale: $f = kani::any();
                let shape: $f = kani::any();
                if let Ok(d) = Pareto::<$f>::new(scale, shape) {
                    kani::assume(scale >= $minsc && scale <= $maxsc && shape >= $minsh && shape <= 1e3);
                    let x: $f = d.sample(&mut rng);
                    vassert!(x == x, "Pareto sample is NaN");
                    vassert!(x >= scale, "Pareto sample below its scale (support is x >= scale)");
                    vassert!(!(scale <= $finsc) || x.is_finite(), "Pareto sample is infinite");
                    vassert!(rng.pos == 1, "Pareto consumes exactly one word");
                    kani::cover!(true, "sample returned");
                }
            }
        }
    };
}
//@ id: c03_pareto_f64
//@ prop: C03
//@ tier: quick
//@ cap: 600
//@ funcs: Pareto::<f64>::new; Pareto::<f64>::sample; rand OpenClosed01::sample::<f64>
//@ bounds: all (scale, shape) accepted by new() and in E (finiteness for scale <= 1e30); every 64-bit word
//@ assumes: libm::pow by contract
c03_pareto!(c03_pareto_f64, f64, 1e-100, 1e100, 0.06, 1e30);
//@ id: c03_pareto_f32
//@ prop: C03
//@ tier: quick
//@ cap: 600
//@ funcs: Pareto::<f32>::new; Pareto::<f32>::sample; rand OpenClosed01::sample::<f32>
//@ bounds: all (scale, shape) accepted by new() and in E (finiteness for scale <= 1e6); all 2^24 uniform values
//@ assumes: libm::powf by contract
c03_pareto!(c03_pareto_f32, f32, 1e-30, 1e30, 0.25, 1e6);

macro_rules! c04_pareto {
    ($name:ident, $f:ty) => {
        vproof! {
            fn $name() {
                let scale: $f = kani::any();
                let shape: $f = kani::any();
                let r = Pareto::<$f>::new(scale, shape);
                let conds = [scale <= 0.0 || scale != scale, shape <= 0.0 || shape != shape];
                let res = match &r {
                    Ok(_) => None,
                    Err(Error::ScaleTooSmall) => Some(0),
                    Err(Error::ShapeTooSmall) => Some(1),
                };
                c04_judge(res, conds);
                if let Ok(d) = r {
                    vassert!(d.scale.to_bits() == scale.to_bits(), "Pareto::new does not store scale");
                    vassert!(d.inv_neg_shape < 0.0 || (shape == <$f>::INFINITY && d.inv_neg_shape == 0.0), "Pareto inv_neg_shape has the wrong sign/class");
                }
                kani::cover!(res.is_none(), "Ok reachable");
                kani::cover!(res == Some(0), "ScaleTooSmall reachable");
                kani::cover!(res == Some(1), "ShapeTooSmall reachable");
            }
        }
    };
}
//@ id: c04_pareto_f64
//@ prop: C04
//@ tier: quick
//@ cap: 300
//@ funcs: Pareto::<f64>::new
//@ bounds: every pair of f64 bit patterns
c04_pareto!(c04_pareto_f64, f64);
//@ id: c04_pareto_f32
//@ prop: C04
//@ tier: quick
//@ cap: 300
//@ funcs: Pareto::<f32>::new
//@ bounds: every pair of f32 bit patterns
c04_pareto!(c04_pareto_f32, f32);

// ---- C07 ----------------------------------------------------------------------------------------
macro_rules! c07_pareto {
    ($name:ident, $f:ty, $oc:ident) => {
        vproof_free! {
            fn $name() {
                let mut rng = SymRng::new(1);
                let w0 = rng.words[0];
                let scale: $f = kani::any();
                let sel: u8 = kani::any();
                let (shape, neg_inv): ($f, $f) = match sel & 3 { 0 => (2.0, -0.5), 1 => (0.25, -4.0), 2 => (1.0, -1.0), _ => (8.0, -0.125) };
                let d = match Pareto::<$f>::new(scale, shape) { Ok(d) => d, Err(_) => return };
                vassert!(d.inv_neg_shape == neg_inv, "Pareto: inv_neg_shape is not -1/shape");
                let x: $f = d.sample(&mut rng);
                vassert!(rng.pos == 1, "Pareto: number of words consumed depends on the parameters");
                let g: f64 = if native() {
                    let mut r2 = SymRng::from_words(rng.words, NW);
                    let z: $f = Pareto::<$f>::new(1.0, shape).unwrap().sample(&mut r2);
                    vassert!(rng.pos == r2.pos, "Pareto: number of words consumed depends on the parameters");
                    let want = scale * z;
                    vassert!(x == want || (x != x && want != want), "Pareto: sample is not scale * (standard member)");
                    return;
                } else {
                    vassert!(flog_n() == 1, "Pareto: expected exactly one power");
                    let (b, e, g) = flog_get(0);
                    vassert!(e == neg_inv as f64, "Pareto: exponent is not -1/shape");
                    g
                };
                vassert!(biteq64(x as f64, (scale * (g as $f)) as f64), "Pareto: sample is not scale * g");
                kani::cover!(g == 2.0, "g = 2");
            }
        }
    };
}
//@ id: c07_pareto_f64
//@ prop: C07
//@ tier: quick
//@ cap: 900
//@ funcs: Pareto::<f64>::new (inv_neg_shape); Pareto::<f64>::sample
//@ bounds: every accepted scale, shape in {1/4, 1, 2, 8}; every word; g over the free-stub value set
//@ assumes: libm::pow replaced by a free logging stub
c07_pareto!(c07_pareto_f64, f64, oc01_64);
//@ id: c07_pareto_f32
//@ prop: C07
//@ tier: quick
//@ cap: 900
//@ funcs: Pareto::<f32>::new; Pareto::<f32>::sample
//@ bounds: as c07_pareto_f64
//@ assumes: libm::powf replaced by a free logging stub
c07_pareto!(c07_pareto_f32, f32, oc01_32);
