// Harnesses for src/pert.rs
#[allow(unused_imports)]
use std::{vec, vec::Vec};
use super::*;
use crate::__verif_support::*;

macro_rules! c04_pert {
    ($name:ident, $f:ty, $big:expr) => {
        vproof! {
            fn $name() {
                let min: $f = kani::any();
                let max: $f = kani::any();
                let mode: $f = kani::any();
                let shape: $f = kani::any();
                // unspecified regions (documentation silent / contradictory):
                //  * max == min: doc comment says `max < min`, Display says "min < max is not met"
                //  * infinite bounds or magnitudes/shape so large that shape*(mode-min) or max-min overflow
                //    (the Beta parameters become NaN and the Beta error is mapped to RangeTooSmall)
                kani::assume(max != min);
                kani::assume(!(min.abs() > $big) && !(max.abs() > $big) && !(mode.abs() > $big) && !(shape > $big));
                let r = Pert::<$f>::new(min, max).with_shape(shape).with_mode(mode);
                // RangeTooSmall: `max < min` or NaN; ModeRange: `mode < min` or `mode > max` or NaN; ShapeTooSmall: `shape < 0` or NaN
                let conds = [max < min || min != min || max != max, mode < min || mode > max || mode != mode, shape < 0.0 || shape != shape];
                let res = match &r {
                    Ok(_) => None,
                    Err(PertError::RangeTooSmall) => Some(0),
                    Err(PertError::ModeRange) => Some(1),
                    Err(PertError::ShapeTooSmall) => Some(2),
                };
                c04_judge(res, conds);
                if let Ok(d) = r {
                    vassert!(d.min.to_bits() == min.to_bits(), "Pert does not store min");
                    // C07 state: range is the documented max - min
                    vassert!(d.range == max - min, "Pert.range != max - min");
                }
                kani::cover!(res.is_none(), "Ok reachable");
                kani::cover!(res == Some(0), "RangeTooSmall reachable");
                kani::cover!(res == Some(1), "ModeRange reachable");
                kani::cover!(res == Some(2), "ShapeTooSmall reachable");
            }
        }
    };
}
//@ id: c04_pert_f64
//@ besteffort: yes
//@ prop: C04
//@ tier: thorough
//@ cap: 600
//@ funcs: Pert::<f64>::new; PertBuilder::with_shape; with_mode; Beta::new
//@ bounds: every (min, max, mode, shape) with magnitudes <= 1e150 (or NaN), max != min
//@ assumes: max == min and overflow-prone magnitudes unspecified (docs contradictory/silent); libm::sqrt by contract
c04_pert!(c04_pert_f64, f64, 1e150);
//@ id: c04_pert_f32
//@ prop: C04
//@ tier: quick
//@ cap: 600
//@ funcs: Pert::<f32>::new; PertBuilder::with_shape; with_mode; Beta::new
//@ bounds: every (min, max, mode, shape) with magnitudes <= 1e18 (or NaN), max != min
//@ assumes: as for f64
c04_pert!(c04_pert_f32, f32, 1e18);
