// Harnesses attached to src/utils.rs: C14 frame conditions for every family through the public API.
//
// sample() is wrapped in a function with the contract `modifies(rng)`; `proof_for_contract` makes CBMC
// check EVERY write in the call tree of sample() against {*rng, locals} ("Check that .. is assignable").
// A cached spare variate behind a Cell/RefCell, a static counter, or any write through &self fails it.
// The distribution value is built from arbitrary accepted parameters; the RNG state is arbitrary.
// Families whose sampler contains a rejection loop with libm calls (Gamma, ChiSquared, SkewNormal, InverseGaussian,
// Zipf, Zeta, Geometric, UnitSphere) exhausted 11 GB under CBMC's assigns-clause instrumentation and are not
// claimed by this mechanism (DESIGN.md C14).
#[allow(unused_imports)]
use std::{vec, vec::Vec};
use crate::__verif_support::*;
use crate::*;

macro_rules! c14_frame {
    ($name:ident, $wrap:ident, $ty:ty, $out:ty, $limit:expr, $unw:expr, $mk:expr) => {
        #[kani::modifies(rng)]
        #[kani::ensures(|_r: &$out| true)]
        fn $wrap(d: &$ty, rng: &mut SymRng) -> $out {
            d.sample(rng)
        }
        #[kani::proof_for_contract($wrap)]
        #[kani::stub(libm::log, c_ln64)]
        #[kani::stub(libm::logf, c_ln32)]
        #[kani::stub(libm::exp, c_exp64)]
        #[kani::stub(libm::expf, c_exp32)]
        #[kani::stub(libm::pow, c_pow64_plain)]
        #[kani::stub(libm::powf, c_pow32_plain)]
        #[kani::stub(libm::sqrt, c_sqrt64_class)]
        #[kani::stub(libm::sqrtf, c_sqrt32_class)]
        #[kani::stub(libm::tan, c_tan64)]
        #[kani::stub(libm::tanf, c_tan32)]
        #[kani::stub(libm::floor, c_floor64)]
        #[kani::stub(libm::floorf, c_floor32)]
        #[kani::stub(f64::ln, c_ln64)]
        #[kani::stub(f64::exp, c_exp64)]
        #[kani::stub(f64::powf, c_pow64_plain)]
        #[kani::stub(f64::sqrt, c_sqrt64_class)]
        #[kani::stub(crate::utils::ziggurat, c_ziggurat)]
        #[kani::unwind($unw)]
        fn $name() {
            let mut rng = SymRng::new($limit); // all symbolic inputs are drawn first (replay alignment)
            let d: $ty = match $mk {
                Ok(d) => d,
                Err(_) => return,
            };
            let _ = $wrap(&d, &mut rng);
            kani::cover!(rng.pos >= 1, "sample returned after drawing");
        }
    };
}

//@ id: c14_frame_frechet_f32
//@ prop: C14
//@ tier: quick
//@ cap: 600
//@ funcs: Frechet::<f32>::sample (every write in its call tree)
//@ bounds: every accepted parameter triple, arbitrary RNG state, 1 word
//@ assumes: libm by contract
c14_frame!(c14_frame_frechet_f32, w_frechet_f32, Frechet<f32>, f32, 1, 3, Frechet::<f32>::new(kani::any(), kani::any(), kani::any()));
//@ id: c14_frame_weibull_f64
//@ prop: C14
//@ tier: quick
//@ cap: 600
//@ funcs: Weibull::<f64>::sample
//@ bounds: every accepted parameter pair, 1 word
//@ assumes: libm by contract
c14_frame!(c14_frame_weibull_f64, w_weibull_f64, Weibull<f64>, f64, 1, 3, Weibull::<f64>::new(kani::any(), kani::any()));
//@ id: c14_frame_pareto_f32
//@ prop: C14
//@ tier: quick
//@ cap: 600
//@ funcs: Pareto::<f32>::sample
//@ bounds: every accepted parameter pair, 1 word
//@ assumes: libm by contract
c14_frame!(c14_frame_pareto_f32, w_pareto_f32, Pareto<f32>, f32, 1, 3, Pareto::<f32>::new(kani::any(), kani::any()));
//@ id: c14_frame_cauchy_f64
//@ prop: C14
//@ tier: quick
//@ cap: 600
//@ funcs: Cauchy::<f64>::sample
//@ bounds: every accepted parameter pair, 1 word
//@ assumes: libm by contract
c14_frame!(c14_frame_cauchy_f64, w_cauchy_f64, Cauchy<f64>, f64, 1, 3, Cauchy::<f64>::new(kani::any(), kani::any()));
//@ id: c14_frame_triangular_f32
//@ prop: C14
//@ tier: quick
//@ cap: 600
//@ funcs: Triangular::<f32>::sample
//@ bounds: every accepted parameter triple, 1 word
//@ assumes: libm::sqrtf by (class) contract
c14_frame!(c14_frame_triangular_f32, w_triangular_f32, Triangular<f32>, f32, 1, 3, Triangular::<f32>::new(kani::any(), kani::any(), kani::any()));
//@ id: c14_frame_normal_f64
//@ prop: C14
//@ tier: quick
//@ cap: 600
//@ funcs: Normal::<f64>::sample
//@ bounds: every accepted (mean, std_dev), 1 word
//@ assumes: utils::ziggurat by contract
c14_frame!(c14_frame_normal_f64, w_normal_f64, Normal<f64>, f64, 1, 3, Normal::<f64>::new(kani::any(), kani::any()));
//@ id: c14_frame_lognormal_f32
//@ prop: C14
//@ tier: quick
//@ cap: 600
//@ funcs: LogNormal::<f32>::sample
//@ bounds: every accepted (mu, sigma), 1 word
//@ assumes: utils::ziggurat, libm::expf by contract
c14_frame!(c14_frame_lognormal_f32, w_lognormal_f32, LogNormal<f32>, f32, 1, 3, LogNormal::<f32>::new(kani::any(), kani::any()));
//@ id: c14_frame_exp_f64
//@ prop: C14
//@ tier: quick
//@ cap: 600
//@ funcs: Exp::<f64>::sample
//@ bounds: every accepted lambda, 1 word
//@ assumes: utils::ziggurat by contract
c14_frame!(c14_frame_exp_f64, w_exp_f64, Exp<f64>, f64, 1, 3, Exp::<f64>::new(kani::any()));
//@ id: c14_frame_unit_disc_f64
//@ prop: C14
//@ tier: quick
//@ cap: 900
//@ funcs: UnitDisc::sample::<f64>
//@ bounds: arbitrary RNG state, 2 words
c14_frame!(c14_frame_unit_disc_f64, w_disc_f64, UnitDisc, [f64; 2], 2, 4, Ok::<UnitDisc, ()>(UnitDisc));
//@ id: c14_frame_std_geometric
//@ prop: C14
//@ tier: quick
//@ cap: 900
//@ funcs: StandardNormal::sample::<f64> through the contract of utils::ziggurat; StandardGeometric::sample
//@ bounds: arbitrary RNG state, 1 word
c14_frame!(c14_frame_std_geometric, w_std_geo, StandardGeometric, u64, 2, 4, Ok::<StandardGeometric, ()>(StandardGeometric));
