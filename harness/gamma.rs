// Harnesses for src/gamma.rs
#[allow(unused_imports)]
use std::{vec, vec::Vec};
use super::*;
use crate::__verif_support::*;

macro_rules! c04_gamma {
    ($name:ident, $f:ty) => {
        vproof! {
            fn $name() {
                let shape: $f = kani::any();
                let scale: $f = kani::any();
                // unspecified (documentation self-contradictory): scale = inf is documented as ScaleTooLarge
                // (`1 / scale == 0`) but the "Notes" describe inf results; the code returns Ok. Not judged.
                kani::assume(scale != <$f>::INFINITY);
                let r = Gamma::<$f>::new(shape, scale);
                // ShapeTooSmall: `shape <= 0` or nan; ScaleTooSmall: `scale <= 0` or nan; ScaleTooLarge: `1/scale == 0`
                let conds = [shape <= 0.0 || shape != shape, scale <= 0.0 || scale != scale, (1.0 as $f / scale) == 0.0];
                let res = match &r {
                    Ok(_) => None,
                    Err(Error::ShapeTooSmall) => Some(0),
                    Err(Error::ScaleTooSmall) => Some(1),
                    Err(Error::ScaleTooLarge) => Some(2),
                };
                c04_judge(res, conds);
                if let Ok(d) = r {
                    // algorithm variant chosen from the parameters (shape<1 / =1 / >1 / infinite)
                    match d.repr {
                        One(_) => vassert!(shape == 1.0 || shape == <$f>::INFINITY, "Gamma: One variant for shape != 1"),
                        Small(g) => {
                            vassert!(shape < 1.0, "Gamma: Small variant for shape >= 1");
                            vassert!(g.large_shape.scale.to_bits() == scale.to_bits(), "Gamma(Small) does not store scale");
                            vassert!(g.large_shape.d > 0.0 && g.inv_shape > 1.0, "Gamma(Small): d or 1/shape has the wrong class");
                        }
                        Large(g) => {
                            vassert!(shape > 1.0 && shape < <$f>::INFINITY, "Gamma: Large variant for shape <= 1");
                            vassert!(g.scale.to_bits() == scale.to_bits(), "Gamma(Large) does not store scale");
                            vassert!(g.d > 0.0 && g.c >= 0.0, "Gamma(Large): d not positive or c negative/NaN");
                        }
                    }
                }
                kani::cover!(res.is_none() && shape < 1.0, "Ok small");
                kani::cover!(res.is_none() && shape == 1.0, "Ok one");
                kani::cover!(res.is_none() && shape > 1.0, "Ok large");
                kani::cover!(res == Some(0), "ShapeTooSmall reachable");
                kani::cover!(res == Some(1), "ScaleTooSmall reachable");
            }
        }
    };
}
//@ id: c04_gamma_f64
//@ prop: C04
//@ tier: quick
//@ cap: 300
//@ funcs: Gamma::<f64>::new; GammaSmallShape::new_raw; GammaLargeShape::new_raw; Exp::new
//@ bounds: every pair of f64 bit patterns except scale = +inf
//@ assumes: scale = +inf unspecified (docs contradictory); libm::sqrt by contract
c04_gamma!(c04_gamma_f64, f64);
//@ id: c04_gamma_f32
//@ prop: C04
//@ tier: quick
//@ cap: 300
//@ funcs: Gamma::<f32>::new
//@ bounds: every pair of f32 bit patterns except scale = +inf
//@ assumes: scale = +inf unspecified; libm::sqrtf by contract
c04_gamma!(c04_gamma_f32, f32);

// ------------------------------------------------------------------------------------------
// C03: Gamma samples are >= 0, never NaN, infinite only for an infinite parameter (documented)
// ------------------------------------------------------------------------------------------
macro_rules! c03_gamma {
    ($name:ident, $f:ty, $minsh:expr, $maxsh:expr, $minsc:expr, $maxsc:expr) => {
        vproof_zstub! {
            #[kani::unwind(5)]
            fn $name() {
                let mut rng = SymRng::new(3); // all symbolic inputs are drawn first (replay alignment)
                let shape: $f = kani::any();
                let scale: $f = kani::any();
                let d = match Gamma::<$f>::new(shape, scale) { Ok(d) => d, Err(_) => return };
                kani::assume(shape >= $minsh && shape <= $maxsh && scale >= $minsc && scale <= $maxsc);
                // one Marsaglia-Tsang trial: normal draw + Open01 draw (+ one more Open01 draw for shape < 1)
                let x: $f = d.sample(&mut rng);
                vassert!(x == x, "Gamma sample is NaN");
                vassert!(x >= 0.0, "Gamma sample is negative");
                vassert!(x.is_finite(), "Gamma sample is infinite for finite parameters");
                match d.repr {
                    One(_) => vassert!(rng.pos == 1, "Gamma(shape = 1) is one Exp1 draw"),
                    // a trial is (normal draw, Open01 draw); a non-positive 1 + c x costs only the normal draw
                    Large(_) => vassert!(rng.pos >= 2, "Gamma(shape > 1): a sample needs at least 2 words"),
                    Small(_) => vassert!(rng.pos == 3, "Gamma(shape < 1): boost draw + one accepted trial = 3 words"),
                }
                kani::cover!(shape < 1.0, "small shape");
                kani::cover!(shape == 1.0, "shape one");
                kani::cover!(shape > 1.0, "large shape");
            }
        }
    };
}
//@ id: c03_gamma_f64
//@ besteffort: yes
//@ prop: C03
//@ tier: thorough
//@ cap: 1500
//@ funcs: Gamma::<f64>::new; Gamma::<f64>::sample; GammaLargeShape::sample_unscaled (Marsaglia-Tsang trial); GammaSmallShape::sample; Exp::sample
//@ bounds: shape in [1e-3, 1e6], scale in [1e-100, 1e100]; first Marsaglia-Tsang trial (<= 3 words)
//@ assumes: utils::ziggurat, libm::{log,pow,sqrt} by contract
c03_gamma!(c03_gamma_f64, f64, 1e-3, 1e6, 1e-100, 1e100);
//@ id: c03_gamma_f32
//@ besteffort: yes
//@ prop: C03
//@ tier: thorough
//@ cap: 1500
//@ funcs: Gamma::<f32>::new; Gamma::<f32>::sample
//@ bounds: shape in [1e-2, 1e6], scale in [1e-30, 1e30]; first trial
//@ assumes: utils::ziggurat, libm::{logf,powf,sqrtf} by contract
c03_gamma!(c03_gamma_f32, f32, 1e-2, 1e6, 1e-30, 1e30);

macro_rules! c03_gamma_inf {
    ($name:ident, $f:ty) => {
        vproof_zstub! {
            fn $name() {
                let mut rng = SymRng::new(1); // all symbolic inputs are drawn first (replay alignment)
                let shape: $f = kani::any();
                let scale: $f = kani::any();
                kani::assume(shape == <$f>::INFINITY || scale == <$f>::INFINITY);
                let d = match Gamma::<$f>::new(shape, scale) { Ok(d) => d, Err(_) => return };
                let x: $f = d.sample(&mut rng);
                vassert!(x == <$f>::INFINITY, "Gamma with an infinite parameter must yield +inf (documented), not NaN");
                kani::cover!(true, "reached");
            }
        }
    };
}
//@ id: c03_gamma_inf_f64
//@ prop: C03
//@ tier: quick
//@ cap: 300
//@ funcs: Gamma::<f64>::new; Gamma::<f64>::sample (infinite shape or scale)
//@ bounds: shape = +inf or scale = +inf
//@ assumes: utils::ziggurat by contract (Exp1 draw > 0)
c03_gamma_inf!(c03_gamma_inf_f64, f64);

// ------------------------------------------------------------------------------------------
// C07: Gamma is a scale family.  Two runs on the same stream: the standard member (scale 1) and a scaled member
// (scale a power of two, so that `* scale` is exact and any order of the final multiplications gives the same
// bits).  ziggurat is a deterministic function of the consumed word, ln/pow are deterministic cheap functions
// (structure only: accept/reject decisions cannot depend on scale, the result is the standard result * scale,
// the same number of words is consumed).  Covers all three internal variants (shape < 1, = 1, > 1).
// ------------------------------------------------------------------------------------------
fn g_ln64(x: f64) -> f64 { x - 1.0 }
fn g_ln32(x: f32) -> f32 { x - 1.0 }
fn g_pow64(x: f64, _y: f64) -> f64 { x }
fn g_pow32(x: f32, _y: f32) -> f32 { x }
macro_rules! c07_gamma_scale {
    ($name:ident, $f:ty, $budget:expr, $shape:expr) => {
        #[kani::proof]
        #[kani::stub(crate::utils::ziggurat, f_ziggurat_words)]
        #[kani::stub(libm::sqrt, c_sqrt64_const)]
        #[kani::stub(libm::sqrtf, c_sqrt32_const)]
        #[kani::stub(libm::log, g_ln64)]
        #[kani::stub(libm::logf, g_ln32)]
        #[kani::stub(libm::pow, g_pow64)]
        #[kani::stub(libm::powf, g_pow32)]
        #[kani::unwind(6)]
        fn $name() {
            let words: [u64; NW] = kani::any();
            let sel: u8 = kani::any();
            let shape: $f = $shape;
            let scale: $f = match sel & 3 { 0 => 2.0, 1 => 0.5, 2 => 4.0, _ => 1024.0 };
            let mut r1 = SymRng::from_words(words, $budget);
            let mut r2 = SymRng::from_words(words, $budget);
            let x: $f = Gamma::<$f>::new(shape, scale).unwrap().sample(&mut r1);
            let z: $f = Gamma::<$f>::new(shape, 1.0).unwrap().sample(&mut r2);
            vassert!(r1.pos == r2.pos, "Gamma: number of words consumed depends on scale");
            // away from the subnormal range, where the order of exact scalings can matter
            if z == z && (z == 0.0 || z > 1e-30) && z < 1e30 {
                vassert!(biteq64(x as f64, (z * scale) as f64), "Gamma: sample is not (standard member's sample) * scale");
            }
            kani::cover!(z > 1e-30 && z < 1e30 && scale == 1024.0, "a sample in the judged range");
        }
    };
}
//@ id: c07_gamma_scale_f32_small
//@ besteffort: yes
//@ prop: C07
//@ tier: thorough
//@ cap: 900
//@ funcs: Gamma::<f32>::new; Gamma::<f32>::sample (Small: one uniform, one Marsaglia-Tsang trial); GammaLargeShape::sample_unscaled; Exp::sample
//@ bounds: shape = 0.5, scale in {2, 1/2, 4, 1024} (powers of two: the map is exact), every stream, returns within 3 word(s); standard sample in {0} u (1e-30, 1e30)
//@ assumes: utils::ziggurat replaced by a deterministic function of the consumed word (8-bit lattice); libm::sqrt by a constant, libm::log by x-1, libm::pow by its first argument (structure only; native replay uses the real functions)
c07_gamma_scale!(c07_gamma_scale_f32_small, f32, 3, 0.5);
//@ id: c07_gamma_scale_f32_one
//@ prop: C07
//@ tier: quick
//@ cap: 900
//@ funcs: Gamma::<f32>::new; Gamma::<f32>::sample (One: Exp); GammaLargeShape::sample_unscaled; Exp::sample
//@ bounds: shape = 1.0, scale in {2, 1/2, 4, 1024} (powers of two: the map is exact), every stream, returns within 1 word(s); standard sample in {0} u (1e-30, 1e30)
//@ assumes: utils::ziggurat replaced by a deterministic function of the consumed word (8-bit lattice); libm::sqrt by a constant, libm::log by x-1, libm::pow by its first argument (structure only; native replay uses the real functions)
c07_gamma_scale!(c07_gamma_scale_f32_one, f32, 1, 1.0);
//@ id: c07_gamma_scale_f32_large
//@ prop: C07
//@ tier: quick
//@ cap: 900
//@ funcs: Gamma::<f32>::new; Gamma::<f32>::sample (Large: one Marsaglia-Tsang trial); GammaLargeShape::sample_unscaled; Exp::sample
//@ bounds: shape = 2.5, scale in {2, 1/2, 4, 1024} (powers of two: the map is exact), every stream, returns within 2 word(s); standard sample in {0} u (1e-30, 1e30)
//@ assumes: utils::ziggurat replaced by a deterministic function of the consumed word (8-bit lattice); libm::sqrt by a constant, libm::log by x-1, libm::pow by its first argument (structure only; native replay uses the real functions)
c07_gamma_scale!(c07_gamma_scale_f32_large, f32, 2, 2.5);
//@ id: c07_gamma_scale_f64_small
//@ besteffort: yes
//@ prop: C07
//@ tier: thorough
//@ cap: 900
//@ funcs: Gamma::<f64>::new; Gamma::<f64>::sample (Small: one uniform, one Marsaglia-Tsang trial); GammaLargeShape::sample_unscaled; Exp::sample
//@ bounds: shape = 0.5, scale in {2, 1/2, 4, 1024} (powers of two: the map is exact), every stream, returns within 3 word(s); standard sample in {0} u (1e-30, 1e30)
//@ assumes: utils::ziggurat replaced by a deterministic function of the consumed word (8-bit lattice); libm::sqrt by a constant, libm::log by x-1, libm::pow by its first argument (structure only; native replay uses the real functions)
c07_gamma_scale!(c07_gamma_scale_f64_small, f64, 3, 0.5);
//@ id: c07_gamma_scale_f64_one
//@ besteffort: yes
//@ prop: C07
//@ tier: thorough
//@ cap: 900
//@ funcs: Gamma::<f64>::new; Gamma::<f64>::sample (One: Exp); GammaLargeShape::sample_unscaled; Exp::sample
//@ bounds: shape = 1.0, scale in {2, 1/2, 4, 1024} (powers of two: the map is exact), every stream, returns within 1 word(s); standard sample in {0} u (1e-30, 1e30)
//@ assumes: utils::ziggurat replaced by a deterministic function of the consumed word (8-bit lattice); libm::sqrt by a constant, libm::log by x-1, libm::pow by its first argument (structure only; native replay uses the real functions)
c07_gamma_scale!(c07_gamma_scale_f64_one, f64, 1, 1.0);
//@ id: c07_gamma_scale_f64_large
//@ besteffort: yes
//@ prop: C07
//@ tier: thorough
//@ cap: 900
//@ funcs: Gamma::<f64>::new; Gamma::<f64>::sample (Large: one Marsaglia-Tsang trial); GammaLargeShape::sample_unscaled; Exp::sample
//@ bounds: shape = 2.5, scale in {2, 1/2, 4, 1024} (powers of two: the map is exact), every stream, returns within 2 word(s); standard sample in {0} u (1e-30, 1e30)
//@ assumes: utils::ziggurat replaced by a deterministic function of the consumed word (8-bit lattice); libm::sqrt by a constant, libm::log by x-1, libm::pow by its first argument (structure only; native replay uses the real functions)
c07_gamma_scale!(c07_gamma_scale_f64_large, f64, 2, 2.5);
