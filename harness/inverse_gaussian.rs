// Harnesses for src/inverse_gaussian.rs
#[allow(unused_imports)]
use std::{vec, vec::Vec};
use super::*;
use crate::__verif_support::*;

macro_rules! c04_ig {
    ($name:ident, $f:ty) => {
        vproof! {
            fn $name() {
                let mean: $f = kani::any();
                let shape: $f = kani::any();
                let r = InverseGaussian::<$f>::new(mean, shape);
                let conds = [mean <= 0.0 || mean != mean, shape <= 0.0 || shape != shape];
                let res = match &r { Ok(_) => None, Err(Error::MeanNegativeOrNull) => Some(0), Err(Error::ShapeNegativeOrNull) => Some(1) };
                c04_judge(res, conds);
                if let Ok(d) = r {
                    vassert!(d.mean.to_bits() == mean.to_bits() && d.shape.to_bits() == shape.to_bits(), "InverseGaussian::new does not store its arguments");
                }
                kani::cover!(res.is_none(), "Ok reachable");
                kani::cover!(res == Some(0), "MeanNegativeOrNull reachable");
                kani::cover!(res == Some(1), "ShapeNegativeOrNull reachable");
            }
        }
    };
}
//@ id: c04_inverse_gaussian_f64
//@ prop: C04
//@ tier: quick
//@ cap: 300
//@ funcs: InverseGaussian::<f64>::new
//@ bounds: every pair of f64 bit patterns
c04_ig!(c04_inverse_gaussian_f64, f64);
//@ id: c04_inverse_gaussian_f32
//@ prop: C04
//@ tier: quick
//@ cap: 300
//@ funcs: InverseGaussian::<f32>::new
//@ bounds: every pair of f32 bit patterns
c04_ig!(c04_inverse_gaussian_f32, f32);
