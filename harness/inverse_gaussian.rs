// Harnesses for src/inverse_gaussian.rs
#[allow(unused_imports)]
use std::{vec, vec::Vec};
use super::*;
use crate::__verif_support::*;

macro_rules! c04_ig {
    ($name:ident, $f:ty) => {
        vproof! {
            fn $name() {
                let mean: $f = kani::any();
                let shape: $f = kani::any();
                let r = InverseGaussian::<$f>::new(mean, shape);
                let conds = [mean <= 0.0 || mean != mean, shape <= 0.0 || shape != shape];
                let res = match &r { Ok(_) => None, Err(Error::MeanNegativeOrNull) => Some(0), Err(Error::ShapeNegativeOrNull) => Some(1) };
                c04_judge(res, conds);
                if let Ok(d) = r {
                    vassert!(d.mean.to_bits() == mean.to_bits() && d.shape.to_bits() == shape.to_bits(), "InverseGaussian::new does not store its arguments");
                }
                kani::cover!(res.is_none(), "Ok reachable");
                kani::cover!(res == Some(0), "MeanNegativeOrNull reachable");
                kani::cover!(res == Some(1), "ShapeNegativeOrNull reachable");
            }
        }
    };
}
//@ id: c04_inverse_gaussian_f64
//@ prop: C04
//@ tier: quick
//@ cap: 300
//@ funcs: InverseGaussian::<f64>::new
//@ bounds: every pair of f64 bit patterns
c04_ig!(c04_inverse_gaussian_f64, f64);
//@ id: c04_inverse_gaussian_f32
//@ prop: C04
//@ tier: quick
//@ cap: 300
//@ funcs: InverseGaussian::<f32>::new
//@ bounds: every pair of f32 bit patterns
c04_ig!(c04_inverse_gaussian_f32, f32);

// ------------------------------------------------------------------------------------------
// C03: never NaN (Michael-Schucany-Haas root selection), two draws
// ------------------------------------------------------------------------------------------
macro_rules! c03_ig {
    ($name:ident, $f:ty) => {
        vproof_zstub! {
            fn $name() {
                let mut rng = SymRng::new(2);
                let mean: $f = kani::any();
                let shape: $f = kani::any();
                let d = match InverseGaussian::<$f>::new(mean, shape) { Ok(d) => d, Err(_) => return };
                kani::assume(mean >= 1e-3 && mean <= 1e3 && shape >= 1e-3 && shape <= 1e3);
                let x: $f = d.sample(&mut rng);
                vassert!(x == x, "InverseGaussian sample is NaN");
                vassert!(rng.pos == 2, "InverseGaussian consumes one normal and one uniform draw");
                kani::cover!(true, "sample returned");
            }
        }
    };
}
//@ id: c03_inverse_gaussian_f32
//@ prop: C03
//@ tier: quick
//@ cap: 900
//@ funcs: InverseGaussian::<f32>::new; InverseGaussian::<f32>::sample
//@ bounds: mean, shape in [1e-3, 1e3]; every normal draw in [-13.8, 13.8] (contract) incl. exactly 0; every uniform word
//@ assumes: utils::ziggurat, libm::sqrtf by contract; only non-NaN and the word count are asserted (positivity needs cancellation analysis)
c03_ig!(c03_inverse_gaussian_f32, f32);
//@ id: c03_inverse_gaussian_f64
//@ besteffort: yes
//@ prop: C03
//@ tier: thorough
//@ cap: 1500
//@ funcs: InverseGaussian::<f64>::new; InverseGaussian::<f64>::sample
//@ bounds: as c03_inverse_gaussian_f32
//@ assumes: utils::ziggurat, libm::sqrt by contract
c03_ig!(c03_inverse_gaussian_f64, f64);
