// Harnesses for src/unit_circle.rs (C12; termination structure C05)
#[allow(unused_imports)]
use std::{vec, vec::Vec};
use super::*;
use crate::__verif_support::*;

// Uniform(-1, 1): x = 2 f - 1 with f the 52-bit (f64) / 23-bit (f32) fraction of the word
pub(crate) fn cand64(w: u64) -> f64 {
    (f64::from_bits((w >> 12) | 0x3ff0_0000_0000_0000) - 1.0) * 2.0 + -1.0
}
pub(crate) fn cand32(w: u64) -> f32 {
    (f32::from_bits(((w as u32) >> 9) | 0x3f80_0000) - 1.0) * 2.0 + -1.0
}

macro_rules! c12_circle {
    ($name:ident, $f:ty, $cand:ident, $mode:expr) => {
        vproof! {
            #[kani::unwind(4)]
            fn $name() {
                let mut rng = SymRng::new(4);
                let a = $cand(rng.words[0]);
                let b = $cand(rng.words[1]);
                // regions where the acceptance test x1^2 + x2^2 < 1 is decided without rounding questions
                let inside = a.abs() <= 0.5 && b.abs() <= 0.5;
                let outside = a.abs() >= 0.75 && b.abs() >= 0.75;
                // known finding unit_circle_origin: both candidates exactly 0 give 0/0
                let origin = a == 0.0 && b == 0.0;
                if $mode == 0 { kani::assume(!origin); } else { kani::assume(origin); }
                let p: [$f; 2] = UnitCircle.sample(&mut rng);
                vassert!(rng.pos % 2 == 0, "UnitCircle: a trial must consume exactly two draws");
                if inside {
                    vassert!(rng.pos == 2, "UnitCircle: candidate inside the disc was not accepted");
                }
                if outside {
                    vassert!(rng.pos != 2, "UnitCircle: candidate outside the disc was accepted");
                }
                if rng.pos == 2 {
                    vassert!(p[0] == p[0] && p[1] == p[1], "UnitCircle: NaN coordinate");
                    // von Neumann: ((a^2-b^2)/s, 2ab/s): second coordinate has the sign of a*b, first of |a|-|b|
                    vassert!(!(p[1] > 0.0) || (a > 0.0) == (b > 0.0), "UnitCircle: sign of the second coordinate is not sign(x1*x2)");
                }
                kani::cover!(rng.pos == 2 && inside, "accepted inside");
                kani::cover!($mode == 1 || (rng.pos == 4 && outside), "rejected outside, second trial accepted");
            }
        }
    };
}
//@ id: c12_unit_circle_f32
//@ prop: C12
//@ tier: quick
//@ cap: 900
//@ funcs: UnitCircle::sample::<f32>; rand Uniform::<f32>::new/sample
//@ bounds: every stream, returns within 4 words (two trials); acceptance decided in the regions |x|<=1/2 (inside) and |x|>=3/4 (outside); first-trial outputs: no NaN, sign of the second coordinate
//@ assumes: both candidates exactly 0 excluded (known finding unit_circle_origin_f32)
c12_circle!(c12_unit_circle_f32, f32, cand32, 0);
//@ id: c12_unit_circle_f64
//@ prop: C12
//@ tier: quick
//@ cap: 1200
//@ funcs: UnitCircle::sample::<f64>; rand Uniform::<f64>::new/sample
//@ bounds: as c12_unit_circle_f32, 52-bit candidates
//@ assumes: both candidates exactly 0 excluded (a 2^-104 event: outside the single-adversarial-word quantifier)
c12_circle!(c12_unit_circle_f64, f64, cand64, 0);
//@ id: c12_unit_circle_f32_kf_origin
//@ prop: C12
//@ tier: quick
//@ cap: 600
//@ expect: fail
//@ funcs: UnitCircle::sample::<f32>
//@ bounds: both candidates exactly 0.0
c12_circle!(c12_unit_circle_f32_kf_origin, f32, cand32, 1);
