// Harnesses for src/exponential.rs: Exp1 (C03, C06 algorithm), Exp (C03, C04)
#[allow(unused_imports)]
use std::{vec, vec::Vec};
use super::*;
use crate::__verif_support::*;
use crate::ziggurat_tables::{ZIG_EXP_F, ZIG_EXP_R, ZIG_EXP_X};

//@ id: c06_exp1_rect
//@ prop: C06
//@ tier: quick
//@ cap: 900
//@ funcs: utils::ziggurat (one-sided); Exp1::sample::<f64>; ZIG_EXP_X table
//@ bounds: every first word; returns after exactly 1 word (rectangle acceptance)
//@ assumes: none (no libm call on this path)
vproof! {
    #[kani::unwind(3)]
    fn c06_exp1_rect() {
        let mut rng = SymRng::new(1);
        let w0 = rng.words[0];
        let x: f64 = Exp1.sample(&mut rng);
        let i = (w0 & 0xff) as usize;
        vassert!(x >= 1e-20, "ziggurat(exp): rectangle sample not positive (u must be in (0,1))");
        vassert!(x < ZIG_EXP_X[i + 1], "ziggurat(exp): rectangle return outside the rectangle of its layer");
        kani::cover!(i == 0, "rectangle path, base layer");
        kani::cover!(i == 254, "rectangle path, layer 254");
    }
}

//@ id: c06_exp1_wedge
//@ prop: C06
//@ tier: quick
//@ cap: 900
//@ funcs: utils::ziggurat (one-sided); Exp1::sample::<f64> incl. pdf closure; ZIG_EXP_X/F tables
//@ bounds: every stream whose first word selects a layer i != 0; returns after exactly 2 words (first-trial wedge acceptance)
//@ assumes: f64::exp by contract
vproof! {
    #[kani::unwind(4)]
    fn c06_exp1_wedge() {
        let mut rng = SymRng::new(2);
        let w0 = rng.words[0];
        kani::assume(w0 & 0xff != 0);
        let x: f64 = Exp1.sample(&mut rng);
        let i = (w0 & 0xff) as usize;
        kani::assume(rng.pos == 2);
        vassert!(x >= ZIG_EXP_X[i + 1], "ziggurat(exp): wedge sample inside the rectangle of its layer");
        vassert!(x > 0.0 && x.is_finite(), "ziggurat(exp): wedge sample not positive finite");
        kani::cover!(i == 1, "wedge path, layer 1");
        kani::cover!(i == 255, "wedge path, top layer");
    }
}

fn u0_f64(w: u64) -> bool {
    (w >> 11) == 0
}

macro_rules! c06_exp1_tail {
    ($name:ident, $mode:expr) => {
        vproof! {
            #[kani::unwind(4)]
            fn $name() {
                let mut rng = SymRng::new(2);
                let w0 = rng.words[0];
                kani::assume(w0 & 0xff == 0);
                // region of known finding exp1_tail_u0: the tail's StandardUniform draw is exactly 0.0
                if $mode == 0 { kani::assume(!u0_f64(rng.words[1])); } else { kani::assume(u0_f64(rng.words[1])); }
                let x: f64 = Exp1.sample(&mut rng);
                vassert!(x == x, "Exp1 tail sample is NaN");
                vassert!(x > 0.0, "Exp1 sample not positive");
                if rng.pos == 2 {
                    vassert!(x >= ZIG_EXP_R, "exp tail: sample below R");
                    vassert!(x.is_finite(), "exp tail: infinite sample (r - ln(0))");
                    vassert!(x <= 44.5, "exp tail: sample beyond R + 36.8");
                } else {
                    vassert!(rng.pos == 1, "ziggurat(exp): base layer consumed an unexpected number of words");
                }
                kani::cover!(rng.pos == 2, "tail path");
                kani::cover!($mode == 1 || rng.pos == 1, "base-layer rectangle");
            }
        }
    };
}
//@ id: c06_exp1_tail
//@ prop: C06
//@ tier: quick
//@ cap: 900
//@ funcs: Exp1::sample::<f64> zero_case closure (r - ln(u)); utils::ziggurat; rand StandardUniform::<f64>
//@ bounds: every stream whose first word selects the base layer; returns within 2 words
//@ assumes: f64::ln by contract; tail uniform != 0.0 (region of known finding exp1_tail_u0)
c06_exp1_tail!(c06_exp1_tail, 0);
//@ id: c03_exp1_tail_kf_u0
//@ prop: C03
//@ tier: quick
//@ cap: 900
//@ expect: fail
//@ funcs: Exp1::sample::<f64> zero_case closure
//@ bounds: base layer, tail uniform exactly 0.0 (second word >> 11 == 0)
c06_exp1_tail!(c03_exp1_tail_kf_u0, 1);

// ------------------------------------------------------------------------------------------
// Exp
// ------------------------------------------------------------------------------------------
macro_rules! c04_exp {
    ($name:ident, $f:ty) => {
        vproof! {
            fn $name() {
                let lambda: $f = kani::any();
                let r = Exp::<$f>::new(lambda);
                // LambdaTooSmall: `lambda < 0` or is `-0.0` or is nan
                let conds = [lambda < 0.0 || (lambda == 0.0 && lambda.is_sign_negative()) || lambda != lambda];
                let res = match &r { Ok(_) => None, Err(Error::LambdaTooSmall) => Some(0) };
                c04_judge(res, conds);
                if let Ok(d) = r {
                    // C07 state: lambda_inverse is the documented 1/lambda (class check; value in C07)
                    vassert!(d.lambda_inverse >= 0.0, "Exp lambda_inverse negative or NaN");
                    vassert!(lambda != 0.0 || d.lambda_inverse == <$f>::INFINITY, "Exp: lambda = 0 must give 1/lambda = inf");
                    vassert!(!(lambda >= 1e-30 && lambda <= 1e30) || (d.lambda_inverse > 0.0 && d.lambda_inverse < <$f>::INFINITY), "Exp: lambda_inverse not positive finite for an ordinary rate");
                }
                kani::cover!(res.is_none(), "Ok reachable");
                kani::cover!(res == Some(0), "LambdaTooSmall reachable");
            }
        }
    };
}
//@ id: c04_exp_f64
//@ prop: C04
//@ tier: quick
//@ cap: 300
//@ funcs: Exp::<f64>::new
//@ bounds: every f64 bit pattern
c04_exp!(c04_exp_f64, f64);
//@ id: c04_exp_f32
//@ prop: C04
//@ tier: quick
//@ cap: 300
//@ funcs: Exp::<f32>::new
//@ bounds: every f32 bit pattern
c04_exp!(c04_exp_f32, f32);

macro_rules! c03_exp {
    ($name:ident, $f:ty, $minl:expr, $maxl:expr) => {
        vproof_zstub! {
            fn $name() {
                let mut rng = SymRng::new(1);
                let lambda: $f = kani::any();
                if let Ok(d) = Exp::<$f>::new(lambda) {
                    kani::assume(lambda == 0.0 || (lambda >= $minl && lambda <= $maxl));
                    let x: $f = d.sample(&mut rng);
                    vassert!(x == x, "Exp sample is NaN");
                    vassert!(x >= 0.0, "Exp sample is negative");
                    // the documentation names exactly one infinite result: rate 0
                    vassert!((lambda == 0.0) == x.is_infinite(), "Exp sample infinite for a positive rate (or finite for rate 0)");
                    kani::cover!(lambda == 0.0, "rate 0");
                    kani::cover!(lambda > 0.0, "positive rate");
                }
            }
        }
    };
}
//@ id: c03_exp_f64
//@ prop: C03
//@ tier: quick
//@ cap: 300
//@ funcs: Exp::<f64>::new; Exp::<f64>::sample
//@ bounds: lambda = 0 or 1e-100 <= lambda <= 1e100
//@ assumes: utils::ziggurat by contract (0 < x <= 44.5; established by c06_exp1_*, outside known finding exp1_tail_u0)
c03_exp!(c03_exp_f64, f64, 1e-100, 1e100);
//@ id: c03_exp_f32
//@ prop: C03
//@ tier: quick
//@ cap: 300
//@ funcs: Exp::<f32>::new; Exp::<f32>::sample; Exp1::sample::<f32>
//@ bounds: lambda = 0 or 1e-30 <= lambda <= 1e30
//@ assumes: utils::ziggurat by contract
c03_exp!(c03_exp_f32, f32, 1e-30, 1e30);

// ---- C07 ----------------------------------------------------------------------------------------
macro_rules! c07_exp {
    ($name:ident, $f:ty) => {
        vproof_free! {
            fn $name() {
                let mut rng = SymRng::new(1);
                let lambda: $f = kani::any();
                let d = match Exp::<$f>::new(lambda) { Ok(d) => d, Err(_) => return };
                // lambda_inverse is the documented 1/lambda (checked on a few concrete rates; a symbolic duplicate division is out of reach)
                vassert!(Exp::<$f>::new(4.0).unwrap().lambda_inverse == 0.25 && Exp::<$f>::new(0.5).unwrap().lambda_inverse == 2.0
                    && Exp::<$f>::new(0.0).unwrap().lambda_inverse == <$f>::INFINITY, "Exp: lambda_inverse is not 1/lambda");
                let x: $f = d.sample(&mut rng);
                let g: f64 = if native() {
                    // real Exp1 draw on the same words
                    let mut r2 = SymRng::from_words(rng.words, NW);
                    let e: $f = Exp1.sample(&mut r2);
                    vassert!(rng.pos == r2.pos, "Exp: number of words consumed differs from that of the Exp1 draw");
                    e as f64
                } else {
                    vassert!(rng.pos == 1 && flog_n() == 1, "Exp: number of standard draws depends on the parameter");
                    flog_get(0).2
                };
                vassert!(biteq64(x as f64, ((g as $f) * d.lambda_inverse) as f64), "Exp: sample is not Exp1 draw * lambda_inverse");
                kani::cover!(g == 2.0, "g = 2");
            }
        }
    };
}
//@ id: c07_exp_f64
//@ prop: C07
//@ tier: quick
//@ cap: 900
//@ funcs: Exp::<f64>::new (lambda_inverse); Exp::<f64>::sample
//@ bounds: every accepted lambda; the Exp1 draw ranges over the free-stub value set
//@ assumes: utils::ziggurat replaced by a free logged draw consuming one word
c07_exp!(c07_exp_f64, f64);
//@ id: c07_exp_f32
//@ prop: C07
//@ tier: quick
//@ cap: 900
//@ funcs: Exp::<f32>::new; Exp::<f32>::sample
//@ bounds: as c07_exp_f64
//@ assumes: utils::ziggurat replaced by a free logged draw
c07_exp!(c07_exp_f32, f32);
