// Harnesses for src/binomial.rs
#[allow(unused_imports)]
use std::{vec, vec::Vec};
use super::*;
use crate::__verif_support::*;

//@ id: c04_binomial
//@ prop: C04
//@ tier: quick
//@ cap: 900
//@ funcs: Binomial::new; f64_to_u64; poisson::KnuthMethod::new
//@ bounds: every u64 n and every f64 bit pattern p
//@ assumes: f64::powf, f64::sqrt, libm::exp by contract
vproof! {
    fn c04_binomial() {
        let n: u64 = kani::any();
        let p: f64 = kani::any();
        let r = Binomial::new(n, p);
        // ProbabilityTooSmall: `p < 0` or nan; ProbabilityTooLarge: `p > 1`
        let conds = [p < 0.0 || p != p, p > 1.0];
        let res = match &r {
            Ok(_) => None,
            Err(Error::ProbabilityTooSmall) => Some(0),
            Err(Error::ProbabilityTooLarge) => Some(1),
        };
        c04_judge(res, conds);
        if let Ok(d) = r {
            // C02 state: method switch and flip (p -> 1-p) exactly as documented
            let flipped_expected = p > 0.5;
            let q = if flipped_expected { 1.0 - p } else { p };
            match d.method {
                Method::Constant(c) => {
                    vassert!(p == 0.0 || p == 1.0, "Binomial: Constant method for 0 < p < 1");
                    vassert!(c == if p == 0.0 { 0 } else { n }, "Binomial: wrong constant for p = 0 / p = 1");
                }
                Method::Binv(b, fl) => {
                    vassert!(p > 0.0 && p < 1.0, "Binomial: BINV for p = 0 or 1");
                    vassert!(fl == flipped_expected, "Binomial(BINV): flipped flag differs from p > 0.5");
                    vassert!(b.n == n, "Binomial(BINV): n not stored");
                }
                Method::Btpe(b, fl) => {
                    vassert!(p > 0.0 && p < 1.0, "Binomial: BTPE for p = 0 or 1");
                    vassert!(fl == flipped_expected, "Binomial(BTPE): flipped flag differs from p > 0.5");
                    vassert!(b.n == n && b.p == q, "Binomial(BTPE): n or min(p,1-p) not stored");
                    vassert!(b.m <= n, "Binomial(BTPE): mode m exceeds n");
                }
                Method::Poisson(_) => {
                    vassert!(1.0 - q == 1.0 && !flipped_expected, "Binomial: Poisson limit although 1-p != 1");
                }
            }
        }
        kani::cover!(res.is_none() && p > 0.5 && p < 1.0, "Ok flipped");
        kani::cover!(res.is_none() && n > 1000 && p == 0.25, "Ok BTPE");
        kani::cover!(res == Some(0), "ProbabilityTooSmall reachable");
        kani::cover!(res == Some(1), "ProbabilityTooLarge reachable");
    }
}

/// method switch and flip for a concrete n and every p in (0,1) (the product n*p against a constant
/// multiplicand is what SAT can prove equal twice; a symbolic n x symbolic p product is not)
fn binomial_switch(n: u64) {
    let p: f64 = kani::any();
    kani::assume(p > 0.0 && p < 1.0);
    let d = Binomial::new(n, p).unwrap();
    let q = if p > 0.5 { 1.0 - p } else { p };
    let np = (n as f64) * q;
    match d.method {
        Method::Constant(_) => vassert!(false, "Binomial: Constant method for 0 < p < 1"),
        Method::Binv(b, fl) => {
            vassert!(np < 10.0 && 1.0 - q != 1.0, "Binomial: BINV chosen outside n*min(p,1-p) < 10");
            vassert!(fl == (p > 0.5), "Binomial(BINV): flipped flag differs from p > 0.5");
            vassert!(b.n == n, "Binomial(BINV): n not stored");
        }
        Method::Btpe(b, fl) => {
            vassert!(!(np < 10.0), "Binomial: BTPE chosen although n*min(p,1-p) < 10");
            vassert!(fl == (p > 0.5), "Binomial(BTPE): flipped flag differs from p > 0.5");
            vassert!(b.n == n && b.p == q, "Binomial(BTPE): n or min(p,1-p) not stored");
        }
        Method::Poisson(_) => vassert!(np < 10.0 && 1.0 - q == 1.0, "Binomial: Poisson limit chosen although 1-p != 1"),
    }
}

//@ id: c02_binomial_switch
//@ prop: C02
//@ tier: quick
//@ cap: 900
//@ funcs: Binomial::new (method switch BINV / BTPE / Poisson limit at n*min(p,1-p) < 10, p -> 1-p flip)
//@ bounds: n in {10, 32, 1024, u64::MAX} x every f64 p in (0,1)
//@ assumes: f64::powf, f64::sqrt, libm::exp by contract
vproof! {
    fn c02_binomial_switch() {
        binomial_switch(10);
        binomial_switch(32);
        binomial_switch(1024);
        binomial_switch(u64::MAX);
        kani::cover!(true, "reached");
    }
}

//@ id: c02_binomial_switch_more
//@ besteffort: yes
//@ prop: C02
//@ tier: thorough
//@ cap: 1500
//@ funcs: Binomial::new (method switch, flip)
//@ bounds: n in {1, 20, 21, 100, 1000, 2^40, 2^62+12345} x every f64 p in (0,1)
//@ assumes: f64::powf, f64::sqrt, libm::exp by contract
vproof! {
    fn c02_binomial_switch_more() {
        binomial_switch(1);
        binomial_switch(20);
        binomial_switch(21);
        binomial_switch(100);
        binomial_switch(1000);
        binomial_switch(1 << 40);
        binomial_switch((1 << 62) + 12345);
        kani::cover!(true, "reached");
    }
}

// ------------------------------------------------------------------------------------------
// sampling: BINV (C03 support, C05 loop bound), constant and Poisson-limit methods
// ------------------------------------------------------------------------------------------

/// BINV walk from the state new() builds for a concrete (n, p, r0 = q^n) and every first word.  With a concrete
/// state the pmf terms r_k are constants and only the uniform draw is symbolic (111 subtract/compare steps);
/// with symbolic (n, p) the unrolled walk has 4 M SAT variables and does not finish.
fn binv_walk(n: u64, p: f64, r0: f64, flipped: bool) {
    let q = 1.0 - p;
    let sft = p / q;
    let st = Binv { r: r0, s: sft, a: (n as f64 + 1.0) * sft, n };
    let mut rng = SymRng::new(1);
    let x = binv(st, flipped, &mut rng);
    vassert!(x <= n, "Binomial(BINV) sample exceeds n");
    vassert!(rng.pos == 1, "Binomial(BINV): a completed walk consumes exactly one word");
    vassert!(if flipped { n - x <= 110 } else { x <= 110 }, "Binomial(BINV): walk went beyond the restart bound");
}

//@ id: c05_binomial_binv
//@ prop: C05
//@ tier: quick
//@ cap: 1200
//@ funcs: binomial::binv (inner inversion walk and its BINV_MAX_X restart)
//@ bounds: (n, p) in {(20, 0.3), (1000, 0.004), (50_000_000_000_000_000, 1.8e-16) flipped}; r0 = q^n as computed natively (third case: a deliberately deficient r0 so that the pmf terms sum to less than 1 and the walk sticks); every first word; one outer iteration; the inner walk is unwound 113 times with the unwinding assertion ON (the solver proves it never exceeds 112 steps)
//@ assumes: state built as Binomial::new does (s = p/q, a = (n+1) s)
#[kani::proof]
#[kani::unwind(113)]
fn c05_binomial_binv() {
    let sel: u8 = kani::any();
    match sel % 3 {
        0 => binv_walk(20, 0.3, 0.0007979226629761189, false),
        1 => binv_walk(1000, 0.004, 0.018169309535589467, false),
        _ => binv_walk(50_000_000_000_000_000, 1.8e-16, 1.5e-5, true),
    }
    kani::cover!(sel % 3 == 2, "huge n");
}

//@ id: c03_binomial_poisson_limit
//@ prop: C03
//@ tier: quick
//@ cap: 900
//@ funcs: Binomial::new (Poisson-limit branch); poisson::KnuthMethod::<f64>::sample as used by Binomial::sample
//@ bounds: every (n, p) with 1 - p == 1 (p < 2^-53) and n p < 10; up to 4 words
//@ assumes: libm::exp by contract; the Method::Poisson arm of Binomial::sample is `poisson.sample(rng) as u64` (called directly to keep BTPE out of the formula)
vproof! {
    #[kani::unwind(6)]
    fn c03_binomial_poisson_limit() {
        let mut rng = SymRng::new(4); // all symbolic inputs are drawn first (replay alignment)
        let n: u64 = kani::any();
        let p: f64 = kani::any();
        kani::assume(p > 0.0 && p < 1.2e-16);
        let d = match Binomial::new(n, p) { Ok(d) => d, Err(_) => return };
        if let Method::Poisson(k) = d.method {
            let x = k.sample(&mut rng) as u64;
            // the Knuth product needs k+1 draws for result k
            vassert!(x as usize + 1 == rng.pos, "Binomial(Poisson limit): result is not (number of draws - 1)");
            kani::cover!(rng.pos == 3, "poisson limit, 3 draws");
        }
    }
}

//@ id: c02_binomial_binv_state
//@ prop: C02
//@ tier: quick
//@ cap: 900
//@ funcs: Binomial::new (BINV state: r = q^n with q = 1 - min(p, 1-p), n stored)
//@ bounds: every n (full u64, in particular n >= 2^31) and every p for which BINV is selected
//@ assumes: f64::powf / powi replaced by a free logging stub: the harness checks which power is taken
vproof_free! {
    fn c02_binomial_binv_state() {
        let n: u64 = kani::any();
        let p: f64 = kani::any();
        let d = match Binomial::new(n, p) { Ok(d) => d, Err(_) => return };
        if let Method::Binv(b, _) = d.method {
            let pp = if p > 0.5 { 1.0 - p } else { p };
            let (base, ex, g): (f64, f64, f64) = if native() {
                (1.0 - pp, n as f64, (1.0 - pp).powf(n as f64))
            } else {
                vassert!(flog_n() == 1, "Binomial::new(BINV): expected exactly one power");
                flog_get(0)
            };
            vassert!(base == 1.0 - pp, "Binomial::new(BINV): r is not a power of q = 1 - min(p, 1-p)");
            vassert!(ex == n as f64, "Binomial::new(BINV): r = q^e with e != n");
            vassert!(biteq64(b.r, g) && b.n == n, "Binomial::new(BINV): r or n not stored");
            kani::cover!(n >= (1u64 << 32), "huge n with BINV");
        }
        kani::cover!(matches!(d.method, Method::Binv(_, _)), "BINV selected");
    }
}

// ------------------------------------------------------------------------------------------
// C03: BTPE, first trial, from concrete (n, p): result <= n and no panic (f64_to_u64 asserts, saturating casts)
// ------------------------------------------------------------------------------------------
fn btpe_first_trial(n: u64, p: f64, root_npq: f64) {
    let mut rng = SymRng::new(2);
    unsafe { FIXED_SQRT = root_npq; }
    let d = Binomial::new(n, p).unwrap();
    let x = d.sample(&mut rng);
    vassert!(x <= n, "Binomial(BTPE) sample exceeds n");
    vassert!(rng.pos == 2, "Binomial(BTPE): a trial consumes two words");
    kani::cover!(x < n / 2, "left half");
}

//@ id: c03_binomial_btpe
//@ besteffort: yes
//@ prop: C03
//@ tier: thorough
//@ cap: 1500
//@ funcs: binomial::btpe (regions 1-4, steps 5.0-5.3); f64_to_u64; Binomial::new; rand Uniform::<f64>
//@ bounds: (n, p) in {(100, 0.3), (2^40, 0.5)}; every pair of words (u and v symbolic: all four regions); first trial; the step 5.1 walk is bounded by the unwinding assertion (75 steps)
//@ assumes: f64::ln by contract; f64::sqrt(n p q) fixed to its value (4.58257569495584 resp. 524288), so that all BTPE constants are concrete
#[kani::proof]
#[kani::stub(f64::ln, c_ln64)]
#[kani::stub(f64::sqrt, c_sqrt64_fixed)]
#[kani::unwind(76)]
fn c03_binomial_btpe() {
    let sel: bool = kani::any();
    if sel { btpe_first_trial(100, 0.3, 4.58257569495584) } else { btpe_first_trial(1 << 40, 0.5, 524288.0) }
    kani::cover!(sel, "n = 100");
    kani::cover!(!sel, "n = 2^40");
}
