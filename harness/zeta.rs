// Harnesses for src/zeta.rs
#[allow(unused_imports)]
use std::{vec, vec::Vec};
use super::*;
use crate::__verif_support::*;

macro_rules! c04_zeta {
    ($name:ident, $f:ty) => {
        vproof! {
            fn $name() {
                let s: $f = kani::any();
                let r = Zeta::<$f>::new(s);
                let conds = [s <= 1.0 || s != s];
                let res = match &r { Ok(_) => None, Err(Error::STooSmall) => Some(0) };
                c04_judge(res, conds);
                if let Ok(d) = r {
                    vassert!(d.s_minus_1 == s - 1.0, "Zeta::new: s_minus_1 != s - 1");
                    vassert!(d.b >= 1.0, "Zeta::new: b = 2^(s-1) below 1 or NaN");
                }
                kani::cover!(res.is_none(), "Ok reachable");
                kani::cover!(res == Some(0), "STooSmall reachable");
            }
        }
    };
}
//@ id: c04_zeta_f64
//@ prop: C04
//@ tier: quick
//@ cap: 300
//@ funcs: Zeta::<f64>::new
//@ bounds: every f64 bit pattern
//@ assumes: libm::pow by contract
c04_zeta!(c04_zeta_f64, f64);
//@ id: c04_zeta_f32
//@ prop: C04
//@ tier: quick
//@ cap: 300
//@ funcs: Zeta::<f32>::new
//@ bounds: every f32 bit pattern
//@ assumes: libm::powf by contract
c04_zeta!(c04_zeta_f32, f32);

// ------------------------------------------------------------------------------------------
// C03: Zeta returns an integer >= 1 or the documented +inf
// ------------------------------------------------------------------------------------------
macro_rules! c03_zeta {
    ($name:ident, $f:ty) => {
        vproof! {
            #[kani::unwind(3)]
            fn $name() {
                let s: $f = kani::any();
                let d = match Zeta::<$f>::new(s) { Ok(d) => d, Err(_) => return };
                kani::assume(s <= 1001.0);
                let mut rng = SymRng::new(2);
                let x: $f = d.sample(&mut rng);
                vassert!(x == x, "Zeta sample is NaN");
                vassert!(x >= 1.0, "Zeta sample below 1");
                vassert!(x.is_infinite() || x == x.floor(), "Zeta sample is not an integer");
                kani::cover!(x == 1.0, "x = 1");
                kani::cover!(x.is_infinite(), "documented infinite result");
            }
        }
    };
}
//@ id: c03_zeta_f64
//@ prop: C03
//@ tier: quick
//@ cap: 900
//@ funcs: Zeta::<f64>::new; Zeta::<f64>::sample
//@ bounds: s in (1, 1001]; first trial (<= 2 words)
//@ assumes: libm::pow by contract
c03_zeta!(c03_zeta_f64, f64);
//@ id: c03_zeta_f32
//@ prop: C03
//@ tier: quick
//@ cap: 900
//@ funcs: Zeta::<f32>::new; Zeta::<f32>::sample
//@ bounds: s in (1, 1001]; first trial (<= 2 words), all 2^24 uniform values
//@ assumes: libm::powf by contract
c03_zeta!(c03_zeta_f32, f32);
