// Harnesses for src/zeta.rs
#[allow(unused_imports)]
use std::{vec, vec::Vec};
use super::*;
use crate::__verif_support::*;

// ------------------------------------------------------------------------------------------
// C03: Zeta returns an integer >= 1 or the documented +inf
// ------------------------------------------------------------------------------------------
macro_rules! c03_zeta {
    ($name:ident, $f:ty, $mins1:expr) => {
        vproof! {
            #[kani::unwind(3)]
            fn $name() {
                let mut rng = SymRng::new(2); // all symbolic inputs are drawn first (replay alignment)
                let s: $f = kani::any();
                let d = match Zeta::<$f>::new(s) { Ok(d) => d, Err(_) => return };
                kani::assume(s <= 1001.0);
                // the documentation names an infinite result only for s so close to 1 that the proposal
                // u^(-1/(s-1)) overflows; for s - 1 >= the envelope bound it cannot (u >= 2^-53 resp. 2^-24)
                let in_e = s - 1.0 >= $mins1;
                let x: $f = d.sample(&mut rng);
                vassert!(x == x, "Zeta sample is NaN");
                vassert!(x >= 1.0, "Zeta sample below 1");
                vassert!(x.is_infinite() || x == x.floor(), "Zeta sample is not an integer");
                vassert!(!in_e || x.is_finite(), "Zeta sample is infinite although s is not close to 1");
                kani::cover!(x == 1.0, "x = 1");
                kani::cover!(x.is_infinite(), "documented infinite result");
            }
        }
    };
}
//@ id: c03_zeta_f64
//@ prop: C03
//@ tier: quick
//@ cap: 900
//@ funcs: Zeta::<f64>::new; Zeta::<f64>::sample
//@ bounds: s in (1, 1001]; first trial (<= 2 words)
//@ assumes: libm::pow by contract
c03_zeta!(c03_zeta_f64, f64, 0.06);
//@ id: c03_zeta_f32
//@ prop: C03
//@ tier: quick
//@ cap: 900
//@ funcs: Zeta::<f32>::new; Zeta::<f32>::sample
//@ bounds: s in (1, 1001]; first trial (<= 2 words), all 2^24 uniform values
//@ assumes: libm::powf by contract
c03_zeta!(c03_zeta_f32, f32, 0.25);

// ------------------------------------------------------------------------------------------
// C05: no parameter regime in E rejects independently of the stream.  Witness stream: the first draw is the
// largest OpenClosed01 value (u = 1 => proposal x = 1), any non-zero second draw: Devroye's test
// v x (t-1) b <= t (b-1) then holds for every s (it reads v <= 1), including b = 2^(s-1) = inf.
// A strict RNG turns "asks for a third word" into an assertion failure.
// ------------------------------------------------------------------------------------------
macro_rules! c05_zeta {
    ($name:ident, $f:ty, $lo:expr, $hi:expr, $vnz:expr) => {
        vproof! {
            #[kani::unwind(3)]
            fn $name() {
                let mut rng = SymRng::new(2); // all symbolic inputs are drawn first (replay alignment)
                let s: $f = kani::any();
                kani::assume(s >= $lo && s <= $hi);
                let d = match Zeta::<$f>::new(s) { Ok(d) => d, Err(_) => return };
                rng.strict = true;
                rng.words[0] = u64::MAX;
                kani::assume($vnz(rng.words[1]));
                let x: $f = d.sample(&mut rng);
                vassert!(x == 1.0 && rng.pos == 2, "Zeta: proposal x = 1 must be accepted");
                kani::cover!(true, "accepted");
            }
        }
    };
}
fn vnz32(w: u64) -> bool { ((w as u32) >> 8) != 0 }
fn vnz64(w: u64) -> bool { (w >> 11) != 0 }
//@ id: c05_zeta_accept_f32_inf
//@ prop: C05
//@ tier: quick
//@ cap: 900
//@ funcs: Zeta::<f32>::new; Zeta::<f32>::sample (Devroye acceptance test with b = 2^(s-1) = +inf)
//@ bounds: s in [129, 1001] (b overflows f32); witness stream u = 1, any v != 0; must return within 2 words
//@ assumes: libm::powf by contract (functional; 2^y = inf for y >= 128; pow(1, y) = 1)
c05_zeta!(c05_zeta_accept_f32_inf, f32, 129.0, 1001.0, vnz32);
//@ id: c05_zeta_accept_f32
//@ besteffort: yes
//@ prop: C05
//@ tier: thorough
//@ cap: 1500
//@ funcs: Zeta::<f32>::new; Zeta::<f32>::sample
//@ bounds: s in [1.25, 129); witness stream u = 1, any v != 0; must return within 2 words
//@ assumes: libm::powf by contract (functional on repeated arguments)
c05_zeta!(c05_zeta_accept_f32, f32, 1.25, 129.0, vnz32);
