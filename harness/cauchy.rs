// Harnesses for src/cauchy.rs
#[allow(unused_imports)]
use std::{vec, vec::Vec};
use super::*;
use crate::__verif_support::*;

macro_rules! c03_cauchy {
    ($name:ident, $f:ty, $maxloc:expr, $minsc:expr, $maxsc:expr) => {
        vproof! {
            fn $name() {
                let mut rng = SymRng::new(1);
                let median: $f = kani::any();
                let scale: $f = kani::any();
                if let Ok(d) = Cauchy::<$f>::new(median, scale) {
                    kani::assume(median.abs() <= $maxloc && scale >= $minsc && scale <= $maxsc);
                    let x: $f = d.sample(&mut rng);
                    vassert!(x == x, "Cauchy sample is NaN");
                    vassert!(rng.pos == 1, "Cauchy consumes exactly one word");
                    kani::cover!(true, "sample returned");
                }
            }
        }
    };
}
//@ id: c03_cauchy_f64
//@ prop: C03
//@ tier: quick
//@ cap: 600
//@ funcs: Cauchy::<f64>::new; Cauchy::<f64>::sample; rand StandardUniform::sample::<f64>
//@ bounds: all (median, scale) accepted by new() and in E; every 64-bit word
//@ assumes: libm::tan by contract (finite, non-NaN for finite argument); magnitude of tan not bounded, so finiteness of median + scale*tan is not asserted
c03_cauchy!(c03_cauchy_f64, f64, 1e100, 1e-100, 1e100);
//@ id: c03_cauchy_f32
//@ prop: C03
//@ tier: quick
//@ cap: 600
//@ funcs: Cauchy::<f32>::new; Cauchy::<f32>::sample; rand StandardUniform::sample::<f32>
//@ bounds: all (median, scale) accepted by new() and in E; all 2^24 uniform values
//@ assumes: libm::tanf by contract
c03_cauchy!(c03_cauchy_f32, f32, 1e30, 1e-30, 1e30);

macro_rules! c04_cauchy {
    ($name:ident, $f:ty) => {
        vproof! {
            fn $name() {
                let median: $f = kani::any();
                let scale: $f = kani::any();
                let r = Cauchy::<$f>::new(median, scale);
                let conds = [scale <= 0.0 || scale != scale];
                let res = match &r {
                    Ok(_) => None,
                    Err(Error::ScaleTooSmall) => Some(0),
                };
                c04_judge(res, conds);
                if let Ok(d) = r {
                    vassert!(d.median.to_bits() == median.to_bits() && d.scale.to_bits() == scale.to_bits(),
                        "Cauchy::new does not store its arguments");
                }
                kani::cover!(res.is_none(), "Ok reachable");
                kani::cover!(res == Some(0), "ScaleTooSmall reachable");
            }
        }
    };
}
//@ id: c04_cauchy_f64
//@ prop: C04
//@ tier: quick
//@ cap: 300
//@ funcs: Cauchy::<f64>::new
//@ bounds: every pair of f64 bit patterns
c04_cauchy!(c04_cauchy_f64, f64);
//@ id: c04_cauchy_f32
//@ prop: C04
//@ tier: quick
//@ cap: 300
//@ funcs: Cauchy::<f32>::new
//@ bounds: every pair of f32 bit patterns
c04_cauchy!(c04_cauchy_f32, f32);

// ---- C07 ----------------------------------------------------------------------------------------
macro_rules! c07_cauchy {
    ($name:ident, $f:ty, $su:ident, $pi:expr) => {
        vproof_free! {
            fn $name() {
                let mut rng = SymRng::new(1);
                let w0 = rng.words[0];
                let median: $f = kani::any();
                let scale: $f = kani::any();
                let d = match Cauchy::<$f>::new(median, scale) { Ok(d) => d, Err(_) => return };
                let x: $f = d.sample(&mut rng);
                vassert!(rng.pos == 1, "Cauchy: number of words consumed depends on the parameters");
                let g: f64 = if native() {
                    let mut r2 = SymRng::from_words(rng.words, NW);
                    let z: $f = Cauchy::<$f>::new(0.0, 1.0).unwrap().sample(&mut r2);
                    vassert!(rng.pos == r2.pos, "Cauchy: number of words consumed depends on the parameters");
                    let want = median + scale * z;
                    vassert!(x == want || (x != x && want != want), "Cauchy: sample is not median + scale * (standard member)");
                    return;
                } else {
                    vassert!(flog_n() == 1, "Cauchy: expected exactly one tangent");
                    let (a, _, g) = flog_get(0);
                    g
                };
                vassert!(biteq64(x as f64, (median + scale * (g as $f)) as f64), "Cauchy: sample is not median + scale * g");
                kani::cover!(g == 2.0, "g = 2");
            }
        }
    };
}
//@ id: c07_cauchy_f64
//@ besteffort: yes
//@ prop: C07
//@ tier: thorough
//@ cap: 1500
//@ funcs: Cauchy::<f64>::new; Cauchy::<f64>::sample
//@ bounds: every accepted (median, scale); every word; g = tan(pi u) over the free-stub value set
//@ assumes: libm::tan replaced by a free logging stub
c07_cauchy!(c07_cauchy_f64, f64, su01_64, core::f64::consts::PI);
//@ id: c07_cauchy_f32
//@ prop: C07
//@ tier: quick
//@ cap: 900
//@ funcs: Cauchy::<f32>::new; Cauchy::<f32>::sample
//@ bounds: as c07_cauchy_f64
//@ assumes: libm::tanf replaced by a free logging stub
c07_cauchy!(c07_cauchy_f32, f32, su01_32, core::f32::consts::PI);
