// Harnesses for src/geometric.rs
#[allow(unused_imports)]
use std::{vec, vec::Vec};
use super::*;
use crate::__verif_support::*;

//@ id: c04_geometric
//@ prop: C04
//@ tier: quick
//@ cap: 900
//@ funcs: Geometric::new (incl. the squaring loop)
//@ bounds: every f64 bit pattern p with p >= 2^-8 or p outside (0, 2^-8) -- the squaring loop needs about log2(1/p) rounds; loop unwound 12 times with the unwinding assertion on
//@ assumes: 0 < p < 2^-8 outside the bound of this harness (covered for termination by c05_geometric_new_small_p)
vproof! {
    #[kani::unwind(12)]
    fn c04_geometric() {
        let p: f64 = kani::any();
        kani::assume(!(p > 0.0 && p < 0.00390625));
        let r = Geometric::new(p);
        // InvalidProbability: `p < 0 || p > 1` or nan
        let conds = [p < 0.0 || p > 1.0 || p != p];
        let res = match &r { Ok(_) => None, Err(Error::InvalidProbability) => Some(0) };
        c04_judge(res, conds);
        if let Ok(d) = r {
            vassert!(d.p.to_bits() == p.to_bits(), "Geometric::new does not store p");
            // C02 state: pi = (1-p)^(2^k) <= 1/2 with k minimal, or k = 0 for p >= 2/3 / 1-p == 1
            if p >= 2.0 / 3.0 || 1.0 - p == 1.0 {
                vassert!(d.k == 0 && d.pi == 1.0 - p, "Geometric::new: k != 0 in the trivial regime");
            } else {
                vassert!(d.k >= 1 && d.k <= 10, "Geometric::new: k out of range for p >= 2^-8");
                vassert!(d.pi <= 0.5 && d.pi > 0.0, "Geometric::new: pi = (1-p)^(2^k) not in (0, 1/2]");
            }
        }
        kani::cover!(res.is_none() && p < 0.5 && p > 0.0, "Ok small p");
        kani::cover!(res.is_none() && p == 0.0, "Ok p = 0");
        kani::cover!(res == Some(0), "InvalidProbability reachable");
    }
}

// ------------------------------------------------------------------------------------------
// C02: StandardGeometric exact law; Geometric assembly (d << k) + m
// ------------------------------------------------------------------------------------------

//@ id: c02_standard_geometric
//@ prop: C02
//@ tier: quick
//@ cap: 300
//@ funcs: StandardGeometric::sample
//@ bounds: every pair of words (the all-zero first word adds 64 and continues)
//@ assumes: none
#[kani::proof]
#[kani::unwind(4)]
fn c02_standard_geometric() {
    let mut rng = SymRng::new(2);
    let (w0, w1) = (rng.words[0], rng.words[1]);
    let r = StandardGeometric.sample(&mut rng);
    if w0 != 0 {
        // result == r  <=>  w0 in [2^(63-r), 2^(64-r)): exactly 2^(63-r) of the 2^64 words, i.e. P(r) = 2^-(r+1)
        vassert!(rng.pos == 1, "StandardGeometric: consumed more than one word for a non-zero word");
        vassert!(r < 64 && (w0 >> (63 - r)) == 1, "StandardGeometric: result r does not correspond to the word interval [2^(63-r), 2^(64-r))");
    } else {
        vassert!(rng.pos == 2, "StandardGeometric: an all-zero word must be followed by another draw");
        vassert!(r >= 64 && r < 128 && (w1 >> (127 - r)) == 1, "StandardGeometric: result after an all-zero word is not 64 + leading zeros of the next word");
    }
    kani::cover!(r == 0, "r = 0");
    kani::cover!(r == 63, "r = 63");
    kani::cover!(r == 100, "r = 100");
}

//@ id: c03_geometric
//@ prop: C03
//@ tier: quick
//@ cap: 900
//@ funcs: Geometric::new; Geometric::sample (trivial algorithm for p >= 2/3, pi == 1 shortcut, (d << k) + m assembly)
//@ bounds: p = 0 or p in [2^-8, 1]; returns within 4 words
//@ assumes: f64::powi, f64::powf by contract
vproof! {
    #[kani::unwind(12)]
    fn c03_geometric() {
        let mut rng = SymRng::new(4); // all symbolic inputs are drawn first (replay alignment)
        let p: f64 = kani::any();
        kani::assume(!(p > 0.0 && p < 0.00390625));
        let d = match Geometric::new(p) { Ok(d) => d, Err(_) => return };
        let words = rng.words;
        let x = d.sample(&mut rng);
        if p == 0.0 || 1.0 - p == 1.0 {
            vassert!(x == u64::MAX && rng.pos == 0, "Geometric(0) must return u64::MAX without drawing");
        } else if p >= 2.0 / 3.0 {
            vassert!(x as usize + 1 == rng.pos, "Geometric(p >= 2/3): result is not (number of draws - 1)");
        } else {
            // D draws (d+1 words) then rejection trials of 2 words each; within 4 words: (d, trials) = (0,1) or (1,1)
            let k = d.k;
            vassert!(k >= 1 && k <= 10, "Geometric: k out of range");
            vassert!(rng.pos == 3 || rng.pos == 4, "Geometric: unexpected number of words");
            let dd = (rng.pos - 3) as u64;
            let m = words[rng.pos - 2] & ((1u64 << k) - 1);
            vassert!(x == (dd << k) + m, "Geometric: result is not (d << k) + m with m the accepted low bits");
        }
        kani::cover!(p == 0.0, "p = 0");
        kani::cover!(p >= 2.0 / 3.0 && rng.pos == 2, "trivial algorithm, one failure");
        kani::cover!(p < 0.5 && p > 0.0 && rng.pos == 4, "split algorithm, d = 1");
    }
}

//@ id: c05_geometric_new_tiny_p
//@ besteffort: yes
//@ prop: C05
//@ tier: thorough
//@ cap: 1500
//@ funcs: Geometric::new (squaring loop for tiny p; agreement with the `pi == 1.0` shortcut of sample)
//@ bounds: every p in (0, 2^-8); squaring loop unwound 60 times with the unwinding assertion ON
//@ assumes: none
#[kani::proof]
#[kani::unwind(60)]
fn c05_geometric_new_tiny_p() {
    let p: f64 = kani::any();
    kani::assume(p > 0.0 && p < 0.00390625);
    let d = Geometric::new(p).unwrap();
    // sample()'s D-loop `while u < pi` terminates quickly only if pi <= 1/2; the only other legal state is the
    // documented degenerate one (1 - p rounds to 1: pi == 1, sample returns u64::MAX without looping)
    vassert!(d.pi == 1.0 || (d.pi <= 0.5 && d.pi > 0.0), "Geometric::new: pi is neither 1 (degenerate) nor <= 1/2: sample would need ~1/(1-pi) words");
    vassert!((d.pi == 1.0) == (1.0 - p == 1.0), "Geometric::new: degenerate state does not match `1 - p == 1`");
    vassert!(d.k <= 60, "Geometric::new: k out of range");
    kani::cover!(d.pi == 1.0, "degenerate");
    kani::cover!(d.k == 20, "k = 20");
}

//@ id: c05_geometric_new_boundary
//@ prop: C05
//@ tier: quick
//@ cap: 600
//@ funcs: Geometric::new (boundary between the degenerate state and the squaring loop)
//@ bounds: every p in (0, 2^-50): 1 - p is 1, 1 - 2^-53 or a few ulps below; squaring loop unwound 60 times (unwinding assertion ON)
//@ assumes: none
#[kani::proof]
#[kani::unwind(60)]
fn c05_geometric_new_boundary() {
    let p: f64 = kani::any();
    kani::assume(p > 0.0 && p < 8.881784197001252e-16);
    let d = Geometric::new(p).unwrap();
    vassert!(d.pi == 1.0 || (d.pi <= 0.5 && d.pi > 0.0), "Geometric::new: pi is neither 1 (degenerate) nor <= 1/2: sample would need ~1/(1-pi) words");
    vassert!((d.pi == 1.0) == (1.0 - p == 1.0), "Geometric::new: degenerate state does not match `1 - p == 1`");
    kani::cover!(d.pi == 1.0, "degenerate");
    kani::cover!(d.pi <= 0.5, "squared down");
}
