// Harnesses for src/geometric.rs
#[allow(unused_imports)]
use std::{vec, vec::Vec};
use super::*;
use crate::__verif_support::*;

//@ id: c04_geometric
//@ prop: C04
//@ tier: quick
//@ cap: 900
//@ funcs: Geometric::new (incl. the squaring loop)
//@ bounds: every f64 bit pattern p with p >= 2^-8 or p outside (0, 2^-8) -- the squaring loop needs about log2(1/p) rounds; loop unwound 12 times with the unwinding assertion on
//@ assumes: 0 < p < 2^-8 outside the bound of this harness (covered for termination by c05_geometric_new_small_p)
vproof! {
    #[kani::unwind(12)]
    fn c04_geometric() {
        let p: f64 = kani::any();
        kani::assume(!(p > 0.0 && p < 0.00390625));
        let r = Geometric::new(p);
        // InvalidProbability: `p < 0 || p > 1` or nan
        let conds = [p < 0.0 || p > 1.0 || p != p];
        let res = match &r { Ok(_) => None, Err(Error::InvalidProbability) => Some(0) };
        c04_judge(res, conds);
        if let Ok(d) = r {
            vassert!(d.p.to_bits() == p.to_bits(), "Geometric::new does not store p");
            // C02 state: pi = (1-p)^(2^k) <= 1/2 with k minimal, or k = 0 for p >= 2/3 / 1-p == 1
            if p >= 2.0 / 3.0 || 1.0 - p == 1.0 {
                vassert!(d.k == 0 && d.pi == 1.0 - p, "Geometric::new: k != 0 in the trivial regime");
            } else {
                vassert!(d.k >= 1 && d.k <= 10, "Geometric::new: k out of range for p >= 2^-8");
                vassert!(d.pi <= 0.5 && d.pi > 0.0, "Geometric::new: pi = (1-p)^(2^k) not in (0, 1/2]");
            }
        }
        kani::cover!(res.is_none() && p < 0.5 && p > 0.0, "Ok small p");
        kani::cover!(res.is_none() && p == 0.0, "Ok p = 0");
        kani::cover!(res == Some(0), "InvalidProbability reachable");
    }
}
