// Harnesses for src/normal.rs: StandardNormal (C03, C06 algorithm), Normal, LogNormal (C03, C04)
#[allow(unused_imports)]
use std::{vec, vec::Vec};
use super::*;
use crate::__verif_support::*;
use crate::ziggurat_tables::{ZIG_NORM_F, ZIG_NORM_R, ZIG_NORM_X};

//@ id: c06_stdnormal_rect
//@ prop: C06
//@ tier: quick
//@ cap: 900
//@ funcs: utils::ziggurat (symmetric); StandardNormal::sample::<f64>; ZIG_NORM_X table
//@ bounds: every first word; behaviours that return after exactly 1 word (rectangle acceptance)
//@ assumes: none (no libm call on this path)
vproof! {
    #[kani::unwind(3)]
    fn c06_stdnormal_rect() {
        let mut rng = SymRng::new(1);
        let w0 = rng.words[0];
        let z: f64 = StandardNormal.sample(&mut rng);
        let i = (w0 & 0xff) as usize;
        vassert!(z.abs() < ZIG_NORM_X[i + 1], "ziggurat(normal): rectangle return outside the rectangle of its layer");
        vassert!(!(z > 0.0) || (w0 >> 63) == 1, "ziggurat(normal): positive sample from a negative uniform");
        vassert!(!(z < 0.0) || (w0 >> 63) == 0, "ziggurat(normal): negative sample from a positive uniform");
        kani::cover!(i == 0, "rectangle path, base layer");
        kani::cover!(i == 254, "rectangle path, layer 254");
    }
}

//@ id: c06_stdnormal_wedge
//@ prop: C06
//@ tier: quick
//@ cap: 900
//@ funcs: utils::ziggurat (symmetric); StandardNormal::sample::<f64> incl. pdf closure; ZIG_NORM_X/F tables; rand StandardUniform::<f64>
//@ bounds: every stream; behaviours that return after exactly 2 words (first-trial wedge acceptance)
//@ assumes: f64::exp by contract
vproof! {
    #[kani::unwind(4)]
    fn c06_stdnormal_wedge() {
        let mut rng = SymRng::new(2);
        let w0 = rng.words[0];
        let z: f64 = StandardNormal.sample(&mut rng);
        let i = (w0 & 0xff) as usize;
        kani::assume(rng.pos == 2);
        vassert!(i != 0, "ziggurat(normal): base layer must go to the tail, not the wedge");
        vassert!(z.abs() >= ZIG_NORM_X[i + 1], "ziggurat(normal): wedge sample inside the rectangle of its layer");
        vassert!(!(z > 0.0) || (w0 >> 63) == 1, "ziggurat(normal): wedge sign differs from the uniform's sign");
        vassert!(!(z < 0.0) || (w0 >> 63) == 0, "ziggurat(normal): wedge sign differs from the uniform's sign");
        kani::cover!(i == 1, "wedge path, layer 1");
        kani::cover!(i == 255, "wedge path, top layer");
    }
}

//@ id: c06_stdnormal_tail
//@ prop: C06
//@ tier: quick
//@ cap: 900
//@ funcs: StandardNormal::sample::<f64> zero_case closure (Marsaglia tail); utils::ziggurat; rand Open01::<f64>
//@ bounds: every stream whose first word selects the base layer (i = 0); behaviours that return within 3 words (one tail iteration)
//@ assumes: f64::ln by contract
vproof! {
    #[kani::unwind(4)]
    fn c06_stdnormal_tail() {
        let mut rng = SymRng::new(3);
        let w0 = rng.words[0];
        kani::assume(w0 & 0xff == 0);
        let z: f64 = StandardNormal.sample(&mut rng);
        vassert!(z == z && z.is_finite(), "StandardNormal tail sample NaN/infinite");
        if rng.pos == 3 {
            let u_neg = (w0 >> 63) == 0;
            vassert!(z.abs() >= ZIG_NORM_R, "normal tail: sample inside (-R, R)");
            vassert!(z.abs() <= 13.8, "normal tail: sample beyond R + 36.8/R");
            vassert!(!u_neg || z < 0.0, "normal tail: sign differs from the sign of the uniform (negative side)");
            vassert!(u_neg || z > 0.0, "normal tail: sign differs from the sign of the uniform (positive side)");
        } else {
            vassert!(rng.pos == 1, "ziggurat(normal): base layer consumed 2 words (wedge on layer 0?)");
        }
        kani::cover!(rng.pos == 3 && z > 0.0, "positive tail");
        kani::cover!(rng.pos == 3 && z < 0.0, "negative tail");
        kani::cover!(rng.pos == 1, "base-layer rectangle");
    }
}

//@ id: c06_stdnormal_wedge_upper
//@ besteffort: yes
//@ prop: C06
//@ tier: thorough
//@ cap: 1500
//@ funcs: utils::ziggurat (symmetric); StandardNormal::sample::<f64>
//@ bounds: every stream; 2-word returns; additionally |x| <= X[i] (needs the solver to bound a 53x53-bit product)
//@ assumes: f64::exp by contract
vproof! {
    #[kani::unwind(4)]
    fn c06_stdnormal_wedge_upper() {
        let mut rng = SymRng::new(2);
        let w0 = rng.words[0];
        let z: f64 = StandardNormal.sample(&mut rng);
        let i = (w0 & 0xff) as usize;
        kani::assume(rng.pos == 2);
        vassert!(z.abs() <= ZIG_NORM_X[i], "ziggurat(normal): wedge sample outside its layer");
        kani::cover!(true, "wedge path");
    }
}

// ------------------------------------------------------------------------------------------
// Normal / LogNormal
// ------------------------------------------------------------------------------------------
macro_rules! c03_normal {
    ($name:ident, $f:ty, $maxloc:expr, $maxsc:expr) => {
        vproof_zstub! {
            fn $name() {
                let mut rng = SymRng::new(1);
                let mean: $f = kani::any();
                let sd: $f = kani::any();
                if let Ok(d) = Normal::<$f>::new(mean, sd) {
                    kani::assume(mean.abs() <= $maxloc && sd.abs() <= $maxsc);
                    let x: $f = d.sample(&mut rng);
                    vassert!(x == x, "Normal sample is NaN");
                    vassert!(x.is_finite(), "Normal sample is infinite");
                    kani::cover!(sd < 0.0, "negative std_dev allowed");
                    kani::cover!(sd > 0.0, "sample returned");
                }
            }
        }
    };
}
//@ id: c03_normal_f64
//@ prop: C03
//@ tier: quick
//@ cap: 600
//@ funcs: Normal::<f64>::new; Normal::<f64>::sample; from_zscore
//@ bounds: all (mean, std_dev) accepted by new() and in E (negative std_dev included)
//@ assumes: utils::ziggurat by contract (|z| <= 13.8, established by c06_stdnormal_*)
c03_normal!(c03_normal_f64, f64, 1e100, 1e100);
//@ id: c03_normal_f32
//@ prop: C03
//@ tier: quick
//@ cap: 600
//@ funcs: Normal::<f32>::new; Normal::<f32>::sample; StandardNormal::sample::<f32> (f64 -> f32 cast)
//@ bounds: all (mean, std_dev) accepted by new() and in E
//@ assumes: utils::ziggurat by contract
c03_normal!(c03_normal_f32, f32, 1e30, 1e30);

macro_rules! c03_lognormal {
    ($name:ident, $f:ty, $maxmu:expr, $maxsig:expr) => {
        vproof_zstub! {
            fn $name() {
                let mut rng = SymRng::new(1);
                let mu: $f = kani::any();
                let sigma: $f = kani::any();
                if let Ok(d) = LogNormal::<$f>::new(mu, sigma) {
                    // E: exp(mu + 13.8 sigma) must fit the float type
                    kani::assume(mu.abs() <= $maxmu && sigma.abs() <= $maxsig);
                    let x: $f = d.sample(&mut rng);
                    vassert!(x == x, "LogNormal sample is NaN");
                    vassert!(x >= 0.0, "LogNormal sample is negative");
                    vassert!(x.is_finite(), "LogNormal sample is infinite");
                    kani::cover!(true, "sample returned");
                }
            }
        }
    };
}
//@ id: c03_lognormal_f64
//@ prop: C03
//@ tier: quick
//@ cap: 600
//@ funcs: LogNormal::<f64>::new; LogNormal::<f64>::sample
//@ bounds: |mu| <= 300, |sigma| <= 25 (so that exp(mu + 13.8 sigma) fits f64)
//@ assumes: utils::ziggurat, libm::exp by contract
c03_lognormal!(c03_lognormal_f64, f64, 300.0, 25.0);
//@ id: c03_lognormal_f32
//@ prop: C03
//@ tier: quick
//@ cap: 600
//@ funcs: LogNormal::<f32>::new; LogNormal::<f32>::sample
//@ bounds: |mu| <= 40, |sigma| <= 3
//@ assumes: utils::ziggurat, libm::expf by contract
c03_lognormal!(c03_lognormal_f32, f32, 40.0, 3.0);

macro_rules! c04_normal {
    ($name:ident, $f:ty) => {
        vproof! {
            fn $name() {
                let a: $f = kani::any();
                let b: $f = kani::any();
                // Normal::new: BadVariance "standard deviation ... is not finite"; mean unrestricted
                let r = Normal::<$f>::new(a, b);
                let res = match &r { Ok(_) => None, Err(Error::MeanTooSmall) => Some(0), Err(Error::BadVariance) => Some(1) };
                c04_judge(res, [false, !b.is_finite()]);
                if let Ok(d) = r {
                    vassert!(d.mean().to_bits() == a.to_bits() && d.std_dev().to_bits() == b.to_bits(), "Normal accessors do not report the arguments");
                }
                kani::cover!(res.is_none(), "Normal::new Ok");
                kani::cover!(res == Some(1), "Normal::new BadVariance");
                // Normal::from_mean_cv: cv must be finite and >= 0 (dispersion parameter); mean unrestricted
                let r = Normal::<$f>::from_mean_cv(a, b);
                let res = match &r { Ok(_) => None, Err(Error::MeanTooSmall) => Some(0), Err(Error::BadVariance) => Some(1) };
                c04_judge(res, [false, !b.is_finite() || b < 0.0]);
                if let Ok(d) = r {
                    vassert!(d.mean().to_bits() == a.to_bits(), "Normal::from_mean_cv does not keep the mean");
                }
                kani::cover!(res.is_none(), "from_mean_cv Ok");
                kani::cover!(res == Some(1), "from_mean_cv BadVariance");
                // LogNormal::new = Normal::new on (mu, sigma)
                let r = LogNormal::<$f>::new(a, b);
                let res = match &r { Ok(_) => None, Err(Error::MeanTooSmall) => Some(0), Err(Error::BadVariance) => Some(1) };
                c04_judge(res, [false, !b.is_finite()]);
                if let Ok(d) = r {
                    vassert!(d.norm.mean.to_bits() == a.to_bits() && d.norm.std_dev.to_bits() == b.to_bits(), "LogNormal::new does not store (mu, sigma)");
                }
            }
        }
    };
}
//@ id: c04_normal_f64
//@ prop: C04
//@ tier: quick
//@ cap: 300
//@ funcs: Normal::<f64>::new; Normal::from_mean_cv; mean; std_dev; LogNormal::<f64>::new
//@ bounds: every pair of f64 bit patterns
c04_normal!(c04_normal_f64, f64);
//@ id: c04_normal_f32
//@ prop: C04
//@ tier: quick
//@ cap: 300
//@ funcs: Normal::<f32>::new; Normal::from_mean_cv; mean; std_dev; LogNormal::<f32>::new
//@ bounds: every pair of f32 bit patterns
c04_normal!(c04_normal_f32, f32);

macro_rules! c04_lognormal_cv {
    ($name:ident, $f:ty) => {
        vproof! {
            fn $name() {
                let mean: $f = kani::any();
                let cv: $f = kani::any();
                // documented: mean > 0 (MeanTooSmall: "mean < 0 or NaN"), cv >= 0 (BadVariance), exception mean = 0, cv = 0 allowed.
                // unspecified (docs silent): infinite mean or cv (overflow of cv*cv / mean*mean)
                kani::assume(!mean.is_infinite() && !cv.is_infinite());
                let r = LogNormal::<$f>::from_mean_cv(mean, cv);
                let res = match &r { Ok(_) => None, Err(Error::MeanTooSmall) => Some(0), Err(Error::BadVariance) => Some(1) };
                let allowed_zero = mean == 0.0 && cv == 0.0;
                let mean_bad = (mean != mean || !(mean > 0.0)) && !allowed_zero;
                let cv_bad = cv != cv || cv < 0.0;
                match res {
                    None => vassert!(!mean_bad && !cv_bad, "LogNormal::from_mean_cv returned Ok for a non-positive/NaN mean or a negative/NaN cv"),
                    Some(0) => vassert!(mean_bad, "LogNormal::from_mean_cv: MeanTooSmall although mean > 0"),
                    _ => vassert!(cv_bad || (cv * cv).is_infinite() || (mean * mean).is_infinite(), "LogNormal::from_mean_cv: BadVariance although cv >= 0"),
                }
                kani::cover!(res.is_none() && cv > 0.0, "Ok reachable");
                kani::cover!(res.is_none() && cv == 0.0, "cv = 0 shortcut reachable");
                kani::cover!(res == Some(0), "MeanTooSmall reachable");
                kani::cover!(res == Some(1), "BadVariance reachable");
            }
        }
    };
}
//@ id: c04_lognormal_cv_f64
//@ prop: C04
//@ tier: quick
//@ cap: 300
//@ funcs: LogNormal::<f64>::from_mean_cv
//@ bounds: every finite-or-NaN (mean, cv) pair of f64 bit patterns
//@ assumes: infinite mean/cv unspecified (docs silent); libm::log, libm::sqrt by contract
c04_lognormal_cv!(c04_lognormal_cv_f64, f64);
//@ id: c04_lognormal_cv_f32
//@ prop: C04
//@ tier: quick
//@ cap: 300
//@ funcs: LogNormal::<f32>::from_mean_cv
//@ bounds: every finite-or-NaN (mean, cv) pair of f32 bit patterns
//@ assumes: infinite mean/cv unspecified; libm::logf, libm::sqrtf by contract
c04_lognormal_cv!(c04_lognormal_cv_f32, f32);

//@ id: c06_stdnormal_tail_regions
//@ prop: C06
//@ tier: quick
//@ cap: 900
//@ funcs: StandardNormal::sample::<f64> zero_case closure: Marsaglia tail acceptance test -2 ln(y_) >= (ln(x_)/R)^2
//@ bounds: base layer, first tail candidate in one of two regions where the test is decided by the ln contract alone: (A) x_ >= 1/2 and y_ <= 1/2 must be accepted (returns after exactly 3 words); (B) x_ <= 2^-11 and y_ >= 1/2 must be rejected (cannot return after 3 words); up to 5 words
//@ assumes: f64::ln by contract (factor-of-two enclosure)
vproof! {
    #[kani::unwind(5)]
    fn c06_stdnormal_tail_regions() {
        let mut rng = SymRng::new(5);
        let w0 = rng.words[0];
        kani::assume(w0 & 0xff == 0);
        // Open01: (w >> 12) as 52-bit fraction of [1,2) minus (1 - 2^-53)
        let fx = rng.words[1] >> 12;
        let fy = rng.words[2] >> 12;
        let region_a = fx >= (1u64 << 51) && fy < (1u64 << 51) - 1;
        let region_b = fx < (1u64 << 41) && fy >= (1u64 << 51);
        kani::assume(region_a || region_b);
        let z: f64 = StandardNormal.sample(&mut rng);
        kani::assume(rng.pos >= 3); // the base-layer rectangle (1 word) is not the subject here
        if region_a {
            vassert!(rng.pos == 3, "normal tail: a candidate with -2 ln(y) >= x^2 was not accepted");
            vassert!(z.abs() >= ZIG_NORM_R && z.abs() <= ZIG_NORM_R + 0.19, "normal tail: accepted candidate not at R - ln(x_)/R");
        } else {
            vassert!(rng.pos != 3, "normal tail: a candidate with -2 ln(y) < x^2 was accepted");
        }
        kani::cover!(region_a && rng.pos == 3, "accept region");
        kani::cover!(region_b && rng.pos == 5, "reject region, accepted at the second candidate");
    }
}

// ---- C07: Normal / LogNormal are mean + std_dev * z (resp. its exponential) for every parameter pair ----
macro_rules! c07_normal {
    ($name:ident, $f:ty, $zs:expr) => {
        vproof_free! {
            fn $name() {
                let mut rng = SymRng::new(1);
                let mean: $f = kani::any();
                let sd: $f = kani::any();
                let d = match Normal::<$f>::new(mean, sd) { Ok(d) => d, Err(_) => return };
                let x: $f = d.sample(&mut rng);
                // the same number of words whatever the parameters (std_dev = 0 and negative std_dev included)
                let z: f64 = if native() {
                    let mut r2 = SymRng::from_words(rng.words, NW);
                    let z: $f = StandardNormal.sample(&mut r2);
                    vassert!(rng.pos == r2.pos, "Normal: number of words consumed differs from that of the standard normal draw");
                    z as f64
                } else {
                    vassert!(rng.pos == 1 && flog_n() == 1, "Normal: number of standard draws depends on the parameters");
                    flog_get(0).2
                };
                vassert!(biteq64(x as f64, (mean + sd * (z as $f)) as f64), "Normal: sample is not mean + std_dev * z");
                // from_zscore for the same z
                if $zs {
                    vassert!(biteq64(d.from_zscore(z as $f) as f64, (mean + sd * (z as $f)) as f64), "Normal::from_zscore(z) is not mean + std_dev * z");
                }
                kani::cover!(z == 2.0 && sd < 0.0, "z = 2, negative std_dev");
                kani::cover!(sd == 0.0, "std_dev = 0");
            }
        }
    };
}
//@ id: c07_normal_f64
//@ besteffort: yes
//@ prop: C07
//@ tier: thorough
//@ cap: 900
//@ funcs: Normal::<f64>::new; Normal::<f64>::sample; from_zscore
//@ bounds: every accepted (mean, std_dev) incl. negative and zero std_dev; z over the free-stub value set {0,-0,+-1,2,1/2,3/4,-3}
//@ assumes: utils::ziggurat replaced by a free logged draw consuming one word
c07_normal!(c07_normal_f64, f64, false);
//@ id: c07_normal_zscore_f64
//@ besteffort: yes
//@ prop: C07
//@ tier: thorough
//@ cap: 1500
//@ funcs: Normal::<f64>::sample; from_zscore
//@ bounds: as c07_normal_f64, plus from_zscore(z) == mean + std_dev * z
//@ assumes: utils::ziggurat replaced by a free logged draw
c07_normal!(c07_normal_zscore_f64, f64, true);
//@ id: c07_normal_f32
//@ prop: C07
//@ tier: quick
//@ cap: 900
//@ funcs: Normal::<f32>::new; Normal::<f32>::sample; from_zscore
//@ bounds: as c07_normal_f64
//@ assumes: utils::ziggurat replaced by a free logged draw
c07_normal!(c07_normal_f32, f32, true);

macro_rules! c07_lognormal {
    ($name:ident, $f:ty) => {
        vproof_free! {
            fn $name() {
                let mut rng = SymRng::new(1);
                let mu: $f = kani::any();
                let sigma: $f = kani::any();
                let d = match LogNormal::<$f>::new(mu, sigma) { Ok(d) => d, Err(_) => return };
                let x: $f = d.sample(&mut rng);
                let (z, e): (f64, f64) = if native() {
                    let mut r2 = SymRng::from_words(rng.words, NW);
                    let z: $f = StandardNormal.sample(&mut r2);
                    vassert!(rng.pos == r2.pos, "LogNormal: number of words consumed differs from that of the standard normal draw");
                    (z as f64, num_traits::Float::exp(mu + sigma * z) as f64)
                } else {
                    vassert!(rng.pos == 1 && flog_n() == 2, "LogNormal: expected one standard draw and one exponential");
                    let (_, _, z) = flog_get(0);
                    let (a, _, e) = flog_get(1);
                    vassert!(biteq64(a, (mu + sigma * (z as $f)) as f64), "LogNormal: exponential is not taken of mu + sigma * z");
                    (z, e)
                };
                vassert!(biteq64(x as f64, (e as $f) as f64), "LogNormal: sample is not exp(mu + sigma * z)");
                kani::cover!(z == 2.0, "z = 2");
            }
        }
    };
}
//@ id: c07_lognormal_f64
//@ besteffort: yes
//@ prop: C07
//@ tier: thorough
//@ cap: 900
//@ funcs: LogNormal::<f64>::new; LogNormal::<f64>::sample
//@ bounds: every accepted (mu, sigma); z over the free-stub value set
//@ assumes: utils::ziggurat, libm::exp replaced by free logging stubs
c07_lognormal!(c07_lognormal_f64, f64);
//@ id: c07_lognormal_f32
//@ prop: C07
//@ tier: quick
//@ cap: 900
//@ funcs: LogNormal::<f32>::new; LogNormal::<f32>::sample
//@ bounds: as c07_lognormal_f64
//@ assumes: utils::ziggurat, libm::expf replaced by free logging stubs
c07_lognormal!(c07_lognormal_f32, f32);

// ------------------------------------------------------------------------------------------
// C06: wedge acceptance at the two edges of a layer.  A wedge candidate whose density equals f(x_i)
// (the outer edge, the lowest density in layer i) lies on or above every height f_{i+1} + (f_i - f_{i+1}) v
// and must be rejected; one whose density equals f(x_{i+1}) (inner edge) lies below every height with v > 0
// and must be accepted.  The density is supplied by a stub for exp that returns the chosen table value.
// ------------------------------------------------------------------------------------------
fn wedge_edges<const NORMAL: bool>() {
    let mut rng = SymRng::new(3);
    let w0 = rng.words[0];
    let w1 = rng.words[1];
    let i = (w0 & 0xff) as usize;
    kani::assume(i != 0);
    let inner: bool = kani::any();
    let (xtab, ftab) = if NORMAL { (&ZIG_NORM_X, &ZIG_NORM_F) } else { (&crate::ziggurat_tables::ZIG_EXP_X, &crate::ziggurat_tables::ZIG_EXP_F) };
    unsafe { FIXED_EXP = if inner { ftab[i + 1] } else { ftab[i] }; }
    // height uniform v = (w1 >> 11) 2^-53
    let vbits = w1 >> 11;
    // candidate near the OUTER edge of the layer (|u| >= 1 - 2^-10) for the must-reject case, so that the
    // counterexample also shows the discrepancy with the real density when replayed natively
    let frac = w0 >> 12; // 52-bit mantissa of u's carrier
    let near_outer = if NORMAL {
        frac >= (1u64 << 52) - (1u64 << 41) || frac < (1u64 << 41)
    } else {
        frac >= (1u64 << 52) - (1u64 << 42)
    };
    if NORMAL {
        let _z: f64 = StandardNormal.sample(&mut rng);
    } else {
        let _x: f64 = crate::Exp1.sample(&mut rng);
    }
    kani::assume(rng.pos >= 2); // not the rectangle
    if native() {
        // native replay: the real density is used; state the wedge decision by its definition
        let u = if NORMAL {
            f64::from_bits(frac | 0x4000_0000_0000_0000) - 3.0
        } else {
            f64::from_bits(frac | 0x3ff0_0000_0000_0000) - (1.0 - f64::EPSILON / 2.0)
        };
        let x = u * xtab[i];
        let pdf = if NORMAL { (-x * x / 2.0).exp() } else { (-x).exp() };
        let h = ftab[i + 1] + (ftab[i] - ftab[i + 1]) * (vbits as f64 * (1.0 / 9007199254740992.0));
        vassert!((rng.pos == 2) == (h < pdf), "ziggurat wedge: acceptance differs from `f_{i+1} + (f_i - f_{i+1}) U < pdf(x)`");
        return;
    }
    if inner {
        // any height with v >= 1/2 is clearly below f(x_{i+1})
        vassert!(vbits < (1u64 << 52) || rng.pos == 2, "ziggurat wedge: a candidate below the density curve (density f(x_{i+1})) was rejected");
    } else if near_outer && vbits != 0 && vbits < (1u64 << 43) {
        vassert!(rng.pos != 2, "ziggurat wedge: a candidate on/above the density curve (density f(x_i)) was accepted");
    }
    kani::cover!(inner && rng.pos == 2, "inner edge accepted");
    kani::cover!(!inner && near_outer && vbits != 0 && vbits < (1u64 << 43) && rng.pos == 3, "outer edge rejected, next trial accepted");
}

//@ id: c06_wedge_edges_normal
//@ prop: C06
//@ tier: quick
//@ cap: 900
//@ funcs: utils::ziggurat wedge test f_tab[i+1] + (f_tab[i] - f_tab[i+1]) * U < pdf(x) (symmetric instance); ZIG_NORM_F
//@ bounds: every layer i != 0, every candidate and height word; density at the candidate fixed to f(x_i) resp. f(x_{i+1}); up to 3 words
//@ assumes: f64::exp replaced by a stub returning the chosen table value
#[kani::proof]
#[kani::stub(f64::exp, c_exp64_fixed)]
#[kani::stub(f64::ln, c_ln64)]
#[kani::unwind(5)]
fn c06_wedge_edges_normal() {
    wedge_edges::<true>()
}

//@ id: c06_wedge_edges_exp
//@ prop: C06
//@ tier: quick
//@ cap: 900
//@ funcs: utils::ziggurat wedge test (one-sided instance); ZIG_EXP_F
//@ bounds: as c06_wedge_edges_normal
//@ assumes: f64::exp replaced by a stub returning the chosen table value
#[kani::proof]
#[kani::stub(f64::exp, c_exp64_fixed)]
#[kani::stub(f64::ln, c_ln64)]
#[kani::unwind(5)]
fn c06_wedge_edges_exp() {
    wedge_edges::<false>()
}
