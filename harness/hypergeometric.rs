// Harnesses for src/hypergeometric.rs
#[allow(unused_imports)]
use std::{vec, vec::Vec};
use super::*;
use crate::__verif_support::*;

/// the factorial-ratio loop runs up to N iterations: replaced by an arbitrary f64 (any value the
/// real function could return, and more), so the integer part of `new` is checked for all u64
fn stub_fpf(_numerator: (u64, u64), _denominator: (u64, u64)) -> f64 {
    kani::any()
}

/// Stirling helper: irrelevant for the constructor's domain and integer state, replaced by an
/// arbitrary f64 (over-approximation) to keep the formula small
fn stub_lnfac(_v: f64) -> f64 {
    kani::any()
}

fn hyper_new_check(nn: u64, kk: u64, n: u64, state: bool) {
    let r = Hypergeometric::new(nn, kk, n);
    // PopulationTooLarge: N too large (float underflow) -- no crisp documented condition: judged only as
    //   "may be returned when K <= N and n <= N"; ProbabilityTooLarge: K > N; SampleSizeTooLarge: n > N
    match &r {
        Ok(_) => vassert!(kk <= nn && n <= nn, "Hypergeometric::new returned Ok although K > N or n > N"),
        Err(Error::ProbabilityTooLarge) => vassert!(kk > nn, "Hypergeometric::new: ProbabilityTooLarge although K <= N"),
        Err(Error::SampleSizeTooLarge) => vassert!(n > nn, "Hypergeometric::new: SampleSizeTooLarge although n <= N"),
        Err(Error::PopulationTooLarge) => vassert!(kk <= nn && n <= nn, "Hypergeometric::new: PopulationTooLarge although K > N or n > N"),
    }
    if !state {
        return;
    }
    if let Ok(d) = r {
        // C02 state: the two symmetry reductions.  Reduced problem: n1 <= n2 successes/failures, k <= N/2 draws;
        // X = offset_x + sign_x * X' (modulo 2^64).
        let n1 = if kk > nn - kk { nn - kk } else { kk };
        let n2 = nn - n1;
        vassert!(d.n1 == n1 && d.n2 == n2, "Hypergeometric::new: (n1, n2) is not (min, max) of (K, N-K)");
        let k = if n <= nn / 2 { n } else { nn - n };
        vassert!(d.k == k, "Hypergeometric::new: k is not min(n, N-n)");
        vassert!(d.sign_x == 1 || d.sign_x == -1, "Hypergeometric::new: sign_x not +-1");
        // the affine map must send the reduced support [max(0,k-n2), min(n1,k)] onto the documented
        // support [max(0, n+K-N), min(n, K)]
        let lo_r = if k > n2 { k - n2 } else { 0 };
        let hi_r = if n1 < k { n1 } else { k };
        let lo = if (n as u128 + kk as u128) > nn as u128 { (n as u128 + kk as u128 - nn as u128) as u64 } else { 0 };
        let hi = if n < kk { n } else { kk };
        let off = d.offset_x as u64;
        let (a, b) = if d.sign_x == 1 { (off.wrapping_add(lo_r), off.wrapping_add(hi_r)) } else { (off.wrapping_sub(lo_r), off.wrapping_sub(hi_r)) };
        vassert!((a == lo && b == hi) || (a == hi && b == lo), "Hypergeometric::new: offset_x/sign_x do not map the reduced support onto [max(0,n+K-N), min(n,K)]");
    }
}

/// N near an integer extreme (u64::MAX - d, 2^63 +- d, 2^32 +- d), K and n near 0 or near N
fn extreme_args() -> (u64, u64, u64) {
    let d: u8 = kani::any();
    let a: u8 = kani::any();
    let b: u8 = kani::any();
    kani::assume(d < 16 && a < 16 && b < 16);
    let sel: u8 = kani::any();
    let nn = match sel & 3 {
        0 => u64::MAX - d as u64,
        1 => (1u64 << 63) + d as u64,
        2 => (1u64 << 63) - 1 - d as u64,
        _ => (1u64 << 32) + d as u64,
    };
    let kk = if sel & 4 == 0 { a as u64 } else { nn - a as u64 };
    let n = if sel & 8 == 0 { b as u64 } else { nn - b as u64 };
    (nn, kk, n)
}

//@ id: c04_hypergeometric_small
//@ besteffort: yes
//@ prop: C04
//@ tier: thorough
//@ cap: 900
//@ funcs: Hypergeometric::new
//@ bounds: N < 1024, every K and n in u64: Ok/Err judgement and absence of panics
//@ assumes: fraction_of_products_of_factorials, ln_of_factorial = arbitrary f64 (over-approximation; their loops are unbounded); f64::ln, exp, sqrt by contract
vproof! {
    #[kani::stub(fraction_of_products_of_factorials, stub_fpf)]
    #[kani::stub(ln_of_factorial, stub_lnfac)]
    fn c04_hypergeometric_small() {
        let nn: u64 = kani::any();
        let kk: u64 = kani::any();
        let n: u64 = kani::any();
        kani::assume(nn < 1024);
        hyper_new_check(nn, kk, n, false);
        kani::cover!(kk <= nn && n <= nn, "valid");
        kani::cover!(kk > nn, "ProbabilityTooLarge");
        kani::cover!(kk <= nn && n > nn, "SampleSizeTooLarge");
    }
}

//@ id: c04_hypergeometric_extreme
//@ prop: C04
//@ tier: quick
//@ cap: 900
//@ funcs: Hypergeometric::new
//@ bounds: N in {u64::MAX-d, 2^63+d, 2^63-1-d, 2^32+d}, K in {a, N-a}, n in {b, N-b}, d,a,b < 16 (integer extremes; sample sizes >= 2^63)
//@ assumes: fraction_of_products_of_factorials, ln_of_factorial = arbitrary f64; f64::ln, exp, sqrt by contract
vproof! {
    #[kani::stub(fraction_of_products_of_factorials, stub_fpf)]
    #[kani::stub(ln_of_factorial, stub_lnfac)]
    fn c04_hypergeometric_extreme() {
        let (nn, kk, n) = extreme_args();
        hyper_new_check(nn, kk, n, true);
        kani::cover!(nn >= u64::MAX - 1 && kk > 16 && n > 16, "N >= u64::MAX-1, large K and n");
    }
}

//@ id: c04_hypergeometric
//@ besteffort: yes
//@ prop: C04
//@ tier: thorough
//@ cap: 1500
//@ funcs: Hypergeometric::new
//@ bounds: every (N, K, n) in u64^3: Ok/Err judgement and absence of panics
//@ assumes: fraction_of_products_of_factorials, ln_of_factorial = arbitrary f64; f64::ln, exp, sqrt by contract
vproof! {
    #[kani::stub(fraction_of_products_of_factorials, stub_fpf)]
    #[kani::stub(ln_of_factorial, stub_lnfac)]
    fn c04_hypergeometric() {
        let nn: u64 = kani::any();
        let kk: u64 = kani::any();
        let n: u64 = kani::any();
        hyper_new_check(nn, kk, n, false);
        kani::cover!(kk <= nn && n <= nn && nn >= u64::MAX - 1, "valid huge");
        kani::cover!(kk > nn, "ProbabilityTooLarge");
        kani::cover!(kk <= nn && n > nn, "SampleSizeTooLarge");
    }
}

//@ id: c02_hypergeometric_reductions_small
//@ besteffort: yes
//@ prop: C02
//@ tier: thorough
//@ cap: 900
//@ funcs: Hypergeometric::new (symmetry reductions K <-> N-K, n <-> N-n; offset_x, sign_x, n1, n2, k)
//@ bounds: every (N, K, n) with K, n <= N < 1024
//@ assumes: fraction_of_products_of_factorials, ln_of_factorial = arbitrary f64 (over-approximation); f64::ln, exp, sqrt by contract
vproof! {
    #[kani::stub(fraction_of_products_of_factorials, stub_fpf)]
    #[kani::stub(ln_of_factorial, stub_lnfac)]
    fn c02_hypergeometric_reductions_small() {
        let nn: u64 = kani::any();
        let kk: u64 = kani::any();
        let n: u64 = kani::any();
        kani::assume(nn < 1024 && kk <= nn && n <= nn);
        hyper_new_check(nn, kk, n, true);
        kani::cover!(kk > nn - kk && n > nn / 2, "both reductions");
        kani::cover!(kk <= nn - kk && n <= nn / 2, "no reduction");
    }
}

//@ id: c02_hypergeometric_reductions
//@ besteffort: yes
//@ prop: C02
//@ tier: thorough
//@ cap: 1500
//@ funcs: Hypergeometric::new (symmetry reductions)
//@ bounds: every (N, K, n) in u64^3 accepted by new
//@ assumes: fraction_of_products_of_factorials, ln_of_factorial = arbitrary f64 (over-approximation); f64::ln, exp, sqrt by contract
vproof! {
    #[kani::stub(fraction_of_products_of_factorials, stub_fpf)]
    #[kani::stub(ln_of_factorial, stub_lnfac)]
    fn c02_hypergeometric_reductions() {
        let nn: u64 = kani::any();
        let kk: u64 = kani::any();
        let n: u64 = kani::any();
        kani::assume(kk <= nn && n <= nn);
        hyper_new_check(nn, kk, n, true);
        kani::cover!(kk > nn - kk && n > nn / 2, "both reductions");
        kani::cover!(kk <= nn - kk && n <= nn / 2, "no reduction");
    }
}

// ------------------------------------------------------------------------------------------
// C03: samples lie in [max(0, n+K-N), min(n, K)] (HIN inverse transform, small populations)
// ------------------------------------------------------------------------------------------

//@ id: c03_hypergeometric_hin
//@ besteffort: yes
//@ prop: C03
//@ tier: thorough
//@ cap: 1500
//@ funcs: Hypergeometric::new (incl. the real fraction_of_products_of_factorials); Hypergeometric::sample (HIN inverse transform, affine map back through offset_x / sign_x)
//@ bounds: every (N, K, n) with N <= 7 (always HIN); every first word; loops unwound to their exact bound (unwinding assertions ON)
//@ assumes: none (no libm call on this path)
#[kani::proof]
#[kani::unwind(9)]
fn c03_hypergeometric_hin() {
    let mut rng = SymRng::new(1); // all symbolic inputs are drawn first (replay alignment)
    let nn: u64 = kani::any();
    let kk: u64 = kani::any();
    let n: u64 = kani::any();
    kani::assume(nn <= 7 && kk <= nn && n <= nn);
    let d = match Hypergeometric::new(nn, kk, n) { Ok(d) => d, Err(_) => return };
    let x = d.sample(&mut rng);
    let lo = if n + kk > nn { n + kk - nn } else { 0 };
    let hi = if n < kk { n } else { kk };
    vassert!(x >= lo && x <= hi, "Hypergeometric sample outside [max(0, n+K-N), min(n, K)]");
    vassert!(rng.pos == 1, "Hypergeometric(HIN) consumes exactly one word");
    kani::cover!(kk > nn - kk && n > nn / 2 && x > 0, "both reductions, positive sample");
    kani::cover!(x == hi && hi > 0, "upper end of the support");
}

//@ id: c02_hypergeometric_reductions_extreme
//@ prop: C02
//@ tier: quick
//@ cap: 900
//@ funcs: Hypergeometric::new (symmetry reductions K <-> N-K, n <-> N-n; offset_x, sign_x, n1, n2, k)
//@ bounds: N in {u64::MAX-d, 2^63+d, 2^63-1-d, 2^32+d}, K in {a, N-a}, n in {b, N-b}, d,a,b < 16 (all four reduction combinations at the integer extremes); N < 1024 and all of u64: thorough tier
//@ assumes: fraction_of_products_of_factorials, ln_of_factorial = arbitrary f64 (over-approximation); f64::ln, exp, sqrt by contract
vproof! {
    #[kani::stub(fraction_of_products_of_factorials, stub_fpf)]
    #[kani::stub(ln_of_factorial, stub_lnfac)]
    fn c02_hypergeometric_reductions_extreme() {
        let (nn, kk, n) = extreme_args();
        hyper_new_check(nn, kk, n, true);
        kani::cover!(kk > nn - kk && n > nn / 2, "both reductions");
        kani::cover!(kk <= nn - kk && n <= nn / 2, "no reduction");
    }
}

// ------------------------------------------------------------------------------------------
// C02: the centre of H2PE and the HIN/H2PE switch.  m must be the mode of the reduced problem,
// floor((k+1)(n1+1)/(N+2)) (Kachitvichyanukul & Schmeiser), judged in exact integer arithmetic; H2PE is used iff
// m - max(0, k - n2) >= 10.  For N < 2^26 the f64 quotient has the same floor as the exact one.
// ------------------------------------------------------------------------------------------
macro_rules! c02_hyper_mode {
    ($name:ident, $lo:expr, $bound:expr) => {
vproof! {
    #[kani::stub(fraction_of_products_of_factorials, stub_fpf)]
    #[kani::stub(ln_of_factorial, stub_lnfac)]
    fn $name() {
        let nn: u64 = kani::any();
        let kk: u64 = kani::any();
        let n: u64 = kani::any();
        kani::assume(nn <= $bound && nn >= $lo && kk <= nn && n <= nn);
        let d = match Hypergeometric::new(nn, kk, n) { Ok(d) => d, Err(_) => return };
        let (n1, n2, k) = (d.n1 as u32, d.n2 as u32, d.k as u32);
        let mode = ((k + 1) * (n1 + 1)) / (nn as u32 + 2);
        let lo = if k > n2 { k - n2 } else { 0 };
        match d.sampling_method {
            SamplingMethod::InverseTransform { .. } => {
                vassert!(mode - lo < 10, "Hypergeometric::new: HIN chosen although mode - max(0, k-n2) >= 10");
            }
            SamplingMethod::RejectionAcceptance { m, .. } => {
                vassert!(mode - lo >= 10, "Hypergeometric::new: H2PE chosen although mode - max(0, k-n2) < 10");
                vassert!(m == mode as f64, "Hypergeometric::new: H2PE is centred on a value that is not the mode floor((k+1)(n1+1)/(N+2))");
            }
        }
        kani::cover!(matches!(d.sampling_method, SamplingMethod::RejectionAcceptance { .. }), "H2PE");
        kani::cover!(matches!(d.sampling_method, SamplingMethod::InverseTransform { .. }) && mode >= 9, "HIN just below the switch");
    }
}
    };
}
//@ id: c02_hypergeometric_mode_n63
//@ besteffort: yes
//@ prop: C02
//@ tier: thorough
//@ cap: 1500
//@ funcs: Hypergeometric::new (mode m, HIN/H2PE switch, m stored for H2PE)
//@ bounds: every (N, K, n) with K, n <= N <= 63
//@ assumes: fraction_of_products_of_factorials, ln_of_factorial = arbitrary f64 (over-approximation); f64::ln, exp, sqrt by contract
c02_hyper_mode!(c02_hypergeometric_mode_n63, 0, 63);
//@ id: c02_hypergeometric_mode_n255
//@ besteffort: yes
//@ prop: C02
//@ tier: thorough
//@ cap: 1500
//@ funcs: Hypergeometric::new (mode m, HIN/H2PE switch, m stored for H2PE)
//@ bounds: every (N, K, n) with K, n <= N <= 255
//@ assumes: as c02_hypergeometric_mode_n63
c02_hyper_mode!(c02_hypergeometric_mode_n255, 0, 255);
//@ id: c02_hypergeometric_mode_n43
//@ prop: C02
//@ tier: quick
//@ cap: 900
//@ funcs: Hypergeometric::new (mode m, HIN/H2PE switch, m stored for H2PE)
//@ bounds: every (K, n) with K, n <= N, N = 43 (the smallest populations on which H2PE is reachable start at N = 38)
//@ assumes: as c02_hypergeometric_mode_n63
c02_hyper_mode!(c02_hypergeometric_mode_n43, 43, 43);

// ------------------------------------------------------------------------------------------
// C05: the HIN walk is bounded by the support, not by the floating-point sum of the pmf terms: for concrete
// parameter sets the loop is unwound to its exact bound with unwinding assertions ON, for every uniform draw
// (incl. the largest one, 1 - 2^-53, which exceeds the rounded sum of the pmf terms for some parameter sets).
// ------------------------------------------------------------------------------------------
macro_rules! c05_hin_walk {
    ($name:ident, $nn:expr, $kk:expr, $n:expr, $unw:expr) => {
        #[kani::proof]
        #[kani::unwind($unw)]
        fn $name() {
            let mut rng = SymRng::new(1);
            let d = Hypergeometric::new($nn, $kk, $n).unwrap();
            let x = d.sample(&mut rng);
            vassert!(x <= $n && x <= $kk, "Hypergeometric(HIN) sample above min(n, K)");
            vassert!(rng.pos == 1, "Hypergeometric(HIN) consumes exactly one word per sample");
            kani::cover!(x == 0, "lower end of the support");
            kani::cover!(x == $n, "upper end of the support");
        }
    };
}
//@ id: c05_hypergeometric_hin_walk_25_10_5
//@ prop: C05
//@ tier: quick
//@ cap: 900
//@ funcs: Hypergeometric::new (real fraction_of_products_of_factorials); Hypergeometric::sample (HIN walk)
//@ bounds: (N, K, n) = (25, 10, 5); every word; all loops unwound 27 times with unwinding assertions ON (the constructor's products need 26, the walk min(n1, k) + 1 = 6)
//@ assumes: none (no libm call on this path)
c05_hin_walk!(c05_hypergeometric_hin_walk_25_10_5, 25, 10, 5, 28);
//@ id: c05_hypergeometric_hin_walk_10_5_3
//@ prop: C05
//@ tier: quick
//@ cap: 900
//@ funcs: Hypergeometric::new; Hypergeometric::sample (HIN walk)
//@ bounds: (N, K, n) = (10, 5, 3); every word; unwind 13 with unwinding assertions ON
//@ assumes: none
c05_hin_walk!(c05_hypergeometric_hin_walk_10_5_3, 10, 5, 3, 13);
//@ id: c05_hypergeometric_hin_walk_52_4_5
//@ besteffort: yes
//@ prop: C05
//@ tier: thorough
//@ cap: 1500
//@ funcs: Hypergeometric::new; Hypergeometric::sample (HIN walk)
//@ bounds: (N, K, n) = (52, 4, 5); every word; unwind 58 with unwinding assertions ON
//@ assumes: none
#[kani::proof]
#[kani::unwind(58)]
fn c05_hypergeometric_hin_walk_52_4_5() {
    // n1 = 4 < k = 5: the walk must stop at n1 (defect fixed in /repo, see known_findings.json)
    let mut rng = SymRng::new(1);
    let d = Hypergeometric::new(52, 4, 5).unwrap();
    let x = d.sample(&mut rng);
    vassert!(x <= 4, "Hypergeometric(HIN) sample above min(n, K)");
    vassert!(rng.pos == 1, "Hypergeometric(HIN) consumes exactly one word per sample");
    kani::cover!(x == 0, "lower end of the support");
    kani::cover!(x == 4, "upper end of the support");
}
