// Harnesses for src/beta.rs
#[allow(unused_imports)]
use std::{vec, vec::Vec};
use super::*;
use crate::__verif_support::*;

/// accessor for harnesses in other modules (dirichlet): (a, b, switched_params)
pub(crate) fn beta_params<F: Float>(b: &Beta<F>) -> (F, F, bool)
where
    Open01: Distribution<F>,
{
    (b.a, b.b, b.switched_params)
}
/// true iff the sampler uses Cheng's algorithm BC (documented for min(alpha, beta) <= 1)
pub(crate) fn beta_is_bc<F: Float>(b: &Beta<F>) -> bool
where
    Open01: Distribution<F>,
{
    matches!(b.algorithm, BetaAlgorithm::BC(_))
}

macro_rules! c04_beta {
    ($name:ident, $f:ty) => {
        vproof! {
            fn $name() {
                let alpha: $f = kani::any();
                let beta: $f = kani::any();
                let r = Beta::<$f>::new(alpha, beta);
                let conds = [alpha <= 0.0 || alpha != alpha, beta <= 0.0 || beta != beta];
                let res = match &r {
                    Ok(_) => None,
                    Err(Error::AlphaTooSmall) => Some(0),
                    Err(Error::BetaTooSmall) => Some(1),
                };
                c04_judge(res, conds);
                if let Ok(d) = r {
                    let (lo, hi) = if alpha < beta { (alpha, beta) } else { (beta, alpha) };
                    match d.algorithm {
                        BetaAlgorithm::BB(_) => {
                            vassert!(lo > 1.0, "Beta: BB chosen although min(alpha, beta) <= 1");
                            // BB: a = min, b = max, result reflected iff alpha is the larger one
                            vassert!(d.a.to_bits() == lo.to_bits() && d.b.to_bits() == hi.to_bits(), "Beta(BB): a,b are not (min,max)");
                            vassert!(d.switched_params == !(alpha < beta), "Beta(BB): switched_params wrong");
                        }
                        BetaAlgorithm::BC(_) => {
                            vassert!(!(lo > 1.0), "Beta: BC chosen although min(alpha, beta) > 1");
                            // BC: a = max, b = min; sample = w/(b+w) ~ Beta(a, b) unless switched
                            vassert!(d.a.to_bits() == hi.to_bits() && d.b.to_bits() == lo.to_bits(), "Beta(BC): a,b are not (max,min)");
                            vassert!(d.switched_params == (alpha < beta), "Beta(BC): switched_params wrong");
                        }
                    }
                }
                kani::cover!(res.is_none() && alpha > 1.0 && beta > 1.0, "Ok BB");
                kani::cover!(res.is_none() && alpha < 1.0, "Ok BC");
                kani::cover!(res == Some(0), "AlphaTooSmall reachable");
                kani::cover!(res == Some(1), "BetaTooSmall reachable");
            }
        }
    };
}
//@ id: c04_beta_f64
//@ prop: C04
//@ tier: quick
//@ cap: 300
//@ funcs: Beta::<f64>::new
//@ bounds: every pair of f64 bit patterns; also checks the algorithm switch min(a,b) > 1 and the swap/reflection flag
//@ assumes: libm::sqrt by contract
c04_beta!(c04_beta_f64, f64);
//@ id: c04_beta_f32
//@ prop: C04
//@ tier: quick
//@ cap: 300
//@ funcs: Beta::<f32>::new
//@ bounds: every pair of f32 bit patterns
//@ assumes: libm::sqrtf by contract
c04_beta!(c04_beta_f32, f32);

// ------------------------------------------------------------------------------------------
// C03: Beta samples lie in [0, 1], never NaN
// ------------------------------------------------------------------------------------------
macro_rules! c03_beta {
    ($name:ident, $f:ty, $min:expr) => {
        vproof! {
            #[kani::unwind(3)]
            fn $name() {
                let mut rng = SymRng::new(2); // all symbolic inputs are drawn first (replay alignment)
                let alpha: $f = kani::any();
                let beta: $f = kani::any();
                let d = match Beta::<$f>::new(alpha, beta) { Ok(d) => d, Err(_) => return };
                kani::assume(alpha >= $min && alpha <= 1e4 && beta >= $min && beta <= 1e4);
                // one Cheng BB / BC trial: two Open01 draws
                let x: $f = d.sample(&mut rng);
                vassert!(x == x, "Beta sample is NaN");
                vassert!(x >= 0.0 && x <= 1.0, "Beta sample outside [0, 1]");
                vassert!(rng.pos == 2, "Beta: a trial consumes two words");
                kani::cover!(alpha > 1.0 && beta > 1.0, "BB");
                kani::cover!(alpha < 1.0, "BC");
                kani::cover!(x == 1.0, "upper end point");
            }
        }
    };
}
//@ id: c03_beta_f64
//@ besteffort: yes
//@ prop: C03
//@ tier: thorough
//@ cap: 1500
//@ funcs: Beta::<f64>::new; Beta::<f64>::sample (Cheng BB and BC trial, w == inf guard, reflection)
//@ bounds: alpha, beta in [1e-3, 1e4]; first trial (2 words)
//@ assumes: libm::{log,exp,sqrt} by contract
c03_beta!(c03_beta_f64, f64, 1e-3);
//@ id: c03_beta_f32
//@ besteffort: yes
//@ prop: C03
//@ tier: thorough
//@ cap: 1500
//@ funcs: Beta::<f32>::new; Beta::<f32>::sample
//@ bounds: alpha, beta in [1e-2, 1e4]; first trial (2 words), all 2^23 values of each Open01 draw
//@ assumes: libm::{logf,expf,sqrtf} by contract
c03_beta!(c03_beta_f32, f32, 1e-2);
