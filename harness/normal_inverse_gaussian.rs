// Harnesses for src/normal_inverse_gaussian.rs
#[allow(unused_imports)]
use std::{vec, vec::Vec};
use super::*;
use crate::__verif_support::*;

macro_rules! c04_nig {
    ($name:ident, $f:ty) => {
        vproof! {
            fn $name() {
                let alpha: $f = kani::any();
                let beta: $f = kani::any();
                let r = NormalInverseGaussian::<$f>::new(alpha, beta);
                // AlphaNegativeOrNull: `alpha <= 0` or nan; AlphaInfinite: alpha is inf;
                // AbsoluteBetaNotLessThanAlpha: `|beta| >= alpha` or nan
                let conds = [alpha <= 0.0 || alpha != alpha, alpha == <$f>::INFINITY, beta.abs() >= alpha || beta != beta || alpha != alpha];
                let res = match &r {
                    Ok(_) => None,
                    Err(Error::AlphaNegativeOrNull) => Some(0),
                    Err(Error::AlphaInfinite) => Some(1),
                    Err(Error::AbsoluteBetaNotLessThanAlpha) => Some(2),
                };
                c04_judge(res, conds);
                if let Ok(d) = r {
                    vassert!(d.beta.to_bits() == beta.to_bits(), "NormalInverseGaussian::new does not store beta");
                }
                kani::cover!(res.is_none(), "Ok reachable");
                kani::cover!(res == Some(0), "AlphaNegativeOrNull reachable");
                kani::cover!(res == Some(2), "AbsoluteBetaNotLessThanAlpha reachable");
            }
        }
    };
}
//@ id: c04_nig_f64
//@ prop: C04
//@ tier: quick
//@ cap: 600
//@ funcs: NormalInverseGaussian::<f64>::new; InverseGaussian::new
//@ bounds: every pair of f64 bit patterns
//@ assumes: libm::sqrt by contract
c04_nig!(c04_nig_f64, f64);
//@ id: c04_nig_f32
//@ prop: C04
//@ tier: quick
//@ cap: 600
//@ funcs: NormalInverseGaussian::<f32>::new
//@ bounds: every pair of f32 bit patterns
//@ assumes: libm::sqrtf by contract
c04_nig!(c04_nig_f32, f32);
