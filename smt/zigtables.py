"""C06 (tables): the ziggurat equations as SMT queries over the constants of the current tree.

The constants are parsed, as exact decimal rationals, from  <repo>/src/ziggurat_tables.rs
(ZIG_{NORM,EXP}_{X,F,R}) and <repo>/utils/ziggurat_tables.py (NORM_V, EXP_V).  Every obligation is
sent *negated* to a solver; `unsat` = the obligation holds for these constants.

  group            logic     solver   obligations
  shape            QF_LRA    z3+cvc5  len 257, X[256]=0, F[256]=1, X[1]=R, X strictly decreasing, F strictly increasing
  density          QF_NRAT   cvc5     |F[i] - f(X[i])| <= 1e-14        f = exp(-x^2/2) resp. exp(-x)      (2 x 257)
  area             QF_NRA    z3+cvc5  X[i] (F[i+1]-F[i]) in V (1 +- 1e-8), i = 1..255;   X[0] F[1] in V(1+-1e-8)
  base+tail        QF_NRA    z3+cvc5  R F[1] + tail(R) in V (1 +- 1e-8);  exp: tail = F[1] (= e^-R to 1e-14, by `density`);
                                      normal: tail = F[1] * M(R), Mills ratio M bracketed by two consecutive convergents
                                      of Laplace's continued fraction (classical theorem, trusted)
  f64-image        --        --       (parsing check) each decimal literal rounds to an f64 whose exact value is within 1e-17 rel.

A `sat`/`unknown`/error/timeout answer is reported as such — never as success.
"""
import concurrent.futures as cf
import os
import re
import subprocess
import sys
import time
from fractions import Fraction

CVC5 = "cvc5"
Z3 = "z3"
TIMEOUT = int(os.environ.get("VERIF_SMT_TIMEOUT", "120"))


def parse_tables(repo):
    src = open(os.path.join(repo, "src", "ziggurat_tables.rs")).read()
    src = re.sub(r"//.*", "", src)
    out = {}
    for name in ("ZIG_NORM_X", "ZIG_NORM_F", "ZIG_EXP_X", "ZIG_EXP_F"):
        m = re.search(r"static\s+%s\s*:\s*\[f64;\s*(\d+)\]\s*=\s*\[(.*?)\];" % name, src, re.S)
        if not m:
            raise ValueError("cannot parse %s" % name)
        vals = [v.strip() for v in m.group(2).replace("\n", " ").split(",") if v.strip()]
        out[name] = (int(m.group(1)), vals)
    for name in ("ZIG_NORM_R", "ZIG_EXP_R"):
        m = re.search(r"(?:const|static)\s+%s\s*:\s*f64\s*=\s*([-+0-9.eE_]+)\s*;" % name, src)
        if m:
            out[name] = m.group(1)
            continue
        # the constant may be defined by reference to a table entry, e.g. `= ZIG_EXP_X[1];`
        m = re.search(r"(?:const|static)\s+%s\s*:\s*f64\s*=\s*(ZIG_(?:NORM|EXP)_[XF])\s*\[\s*(\d+)\s*\]\s*;" % name, src)
        if not m:
            raise ValueError("cannot parse %s" % name)
        out[name] = out[m.group(1)][1][int(m.group(2))]
    gen = open(os.path.join(repo, "utils", "ziggurat_tables.py")).read()
    for name in ("NORM_V", "EXP_V", "NORM_R", "EXP_R"):
        m = re.search(r"^%s\s*=\s*([-+0-9.eE]+)\s*$" % name, gen, re.M)
        if not m:
            raise ValueError("cannot parse %s in generator" % name)
        out["GEN_" + name] = m.group(1)
    return out


def frac(lit):
    return Fraction(lit.replace("_", ""))


def smt_real(q):
    q = Fraction(q)
    if q < 0:
        return "(- %s)" % smt_real(-q)
    if q.denominator == 1:
        return "%d.0" % q.numerator
    return "(/ %d.0 %d.0)" % (q.numerator, q.denominator)


def run_solver(cmd, text):
    t0 = time.time()
    try:
        p = subprocess.run(cmd, input=text, capture_output=True, text=True, timeout=TIMEOUT)
        out = (p.stdout + p.stderr).strip()
    except subprocess.TimeoutExpired:
        out = "timeout"
    dt = time.time() - t0
    if "(error" in out or "error" in out.lower() and "unsat" not in out:
        return "error:" + out[:200], dt
    first = out.split("\n")[0].strip() if out else "empty"
    return first, dt


def q_cvc5(logic, body):
    return run_solver([CVC5, "--lang", "smt2"], "(set-logic %s)\n%s\n(check-sat)\n" % (logic, body))


def q_z3(body):
    return run_solver([Z3, "-in", "-T:%d" % TIMEOUT], "%s\n(check-sat)\n" % body)


def within(expr, center, rel):
    """smt: |expr - center| <= rel*center   (center > 0)"""
    lo = smt_real(Fraction(center) * (1 - Fraction(rel)))
    hi = smt_real(Fraction(center) * (1 + Fraction(rel)))
    return "(and (<= %s %s) (<= %s %s))" % (lo, expr, expr, hi)


def mills_bracket(x, depth):
    """two consecutive convergents of M(x) = 1/(x+ 1/(x+ 2/(x+ 3/(x+ ...)))) as exact rationals"""
    def conv(n):
        t = Fraction(x)
        for k in range(n, 0, -1):
            t = Fraction(x) + Fraction(k) / t
        return 1 / t
    a, b = conv(depth), conv(depth + 1)
    return min(a, b), max(a, b)


def obligations(t):
    """yield (group, name, kind, body) ; kind in {lin, nra, nrat}"""
    obs = []
    for dist, fexpr in (("NORM", lambda x: "(exp (- (/ (* %s %s) 2.0)))" % (x, x)), ("EXP", lambda x: "(exp (- %s))" % x)):
        nX, X = t["ZIG_%s_X" % dist]
        nF, F = t["ZIG_%s_F" % dist]
        R = t["ZIG_%s_R" % dist]
        V = t["GEN_%s_V" % dist]
        Xq = [frac(v) for v in X]
        Fq = [frac(v) for v in F]
        Rq, Vq = frac(R), frac(V)
        obs.append(("shape", "%s lengths 257" % dist, "lin",
                    "(assert (not (and (= %d 257) (= %d 257) (= %d 257) (= %d 257))))" % (nX, nF, len(X), len(F))))
        if len(X) != 257 or len(F) != 257:
            continue
        Rg = frac(t["GEN_%s_R" % dist])
        dR = "(- %s %s)" % (smt_real(Rq), smt_real(Rg))
        obs.append(("shape", "%s X[256]=0, F[256]=1, X[1]=R, |R - generator R| <= 1e-15" % dist, "lin",
                    "(assert (not (and (= %s 0.0) (= %s 1.0) (= %s %s) (<= %s %s) (>= %s (- %s)))))" % (
                        smt_real(Xq[256]), smt_real(Fq[256]), smt_real(Xq[1]), smt_real(Rq),
                        dR, smt_real(Fraction(1, 10**15)), dR, smt_real(Fraction(1, 10**15)))))
        for i in range(256):
            obs.append(("shape", "%s X[%d] > X[%d]" % (dist, i, i + 1), "lin",
                        "(assert (not (> %s %s)))" % (smt_real(Xq[i]), smt_real(Xq[i + 1]))))
            obs.append(("shape", "%s F[%d] < F[%d]" % (dist, i, i + 1), "lin",
                        "(assert (not (< %s %s)))" % (smt_real(Fq[i]), smt_real(Fq[i + 1]))))
        for i in range(257):
            x, f = smt_real(Xq[i]), smt_real(Fq[i])
            d = "(- %s %s)" % (f, fexpr(x))
            eps = smt_real(Fraction(1, 10**14))
            obs.append(("density", "%s |F[%d] - f(X[%d])| <= 1e-14" % (dist, i, i), "nrat",
                        "(assert (not (and (<= %s %s) (>= %s (- %s)))))" % (d, eps, d, eps)))
        rel = Fraction(1, 10**8)
        for i in range(1, 256):
            e = "(* %s (- %s %s))" % (smt_real(Xq[i]), smt_real(Fq[i + 1]), smt_real(Fq[i]))
            obs.append(("area", "%s layer %d area = V(1+-1e-8)" % (dist, i), "nra",
                        "(assert (not %s))" % within(e, Vq, rel)))
        obs.append(("area", "%s X[0]*F[1] = V(1+-1e-8) (X[0] = V/f(R))" % dist, "nra",
                    "(assert (not %s))" % within("(* %s %s)" % (smt_real(Xq[0]), smt_real(Fq[1])), Vq, rel)))
        if dist == "EXP":
            e = "(+ (* %s %s) %s)" % (smt_real(Rq), smt_real(Fq[1]), smt_real(Fq[1]))
            obs.append(("base+tail", "EXP R f(R) + e^-R = V(1+-1e-8)", "nra", "(assert (not %s))" % within(e, Vq, rel)))
        else:
            lo, hi = mills_bracket(Rq, 40)
            # both ends of the bracket must give V(1 +- 1e-8): then the true tail does
            for nm, mq in (("lower", lo), ("upper", hi)):
                e = "(+ (* %s %s) (* %s %s))" % (smt_real(Rq), smt_real(Fq[1]), smt_real(Fq[1]), smt_real(mq))
                obs.append(("base+tail", "NORM R f(R) + f(R) M_%s(R) = V(1+-1e-8)" % nm, "nra",
                            "(assert (not %s))" % within(e, Vq, rel)))
            obs.append(("base+tail", "NORM Mills bracket width <= 1e-10", "lin",
                        "(assert (not (<= (- %s %s) %s)))" % (smt_real(hi), smt_real(lo), smt_real(Fraction(1, 10**10)))))
    return obs


def discharge(ob):
    group, name, kind, body = ob
    res = {"group": group, "name": name}
    if kind == "nrat":
        r, dt = q_cvc5("QF_NRAT", body)
        res.update(cvc5=r, t=dt, ok=(r == "unsat"))
    else:
        r1, d1 = q_cvc5("QF_NRA", body)
        r2, d2 = q_z3(body)
        res.update(cvc5=r1, z3=r2, t=d1 + d2, ok=(r1 == "unsat" and r2 == "unsat"),
                   disagree=(r1 != r2))
    return res


def check(repo, jobs=16):
    t0 = time.time()
    try:
        t = parse_tables(repo)
    except Exception as e:  # the file changed shape: cannot encode
        return {"status": "INCONCLUSIVE", "reason": "cannot parse tables: %s" % e, "queries": 0, "wall_s": 0.0}
    obs = obligations(t)
    with cf.ThreadPoolExecutor(max_workers=jobs) as ex:
        res = list(ex.map(discharge, obs))
    bad = [r for r in res if not r["ok"]]
    nq = sum(2 if "z3" in r else 1 for r in res)
    hard_fail = [r for r in bad if (r.get("cvc5") == "sat" or r.get("z3") == "sat")]
    out = {"queries": nq, "obligations": len(obs), "discharged": len(obs) - len(bad),
           "solver_s": round(sum(r["t"] for r in res), 1), "wall_s": round(time.time() - t0, 1),
           "groups": {g: len([r for r in res if r["group"] == g]) for g in sorted({r["group"] for r in res})},
           "examples": [res[0], res[len(res) // 2], res[-1]]}
    if hard_fail:
        out.update(status="FAIL", reason="%d table obligations violated, first: %s" % (len(hard_fail), hard_fail[0]["name"]),
                   detail=hard_fail[:20])
    elif bad:
        out.update(status="INCONCLUSIVE", reason="solver gave no verdict on %d obligations, first: %s -> %s" % (
            len(bad), bad[0]["name"], {k: bad[0].get(k) for k in ("cvc5", "z3")}))
    else:
        out.update(status="PASS", reason="")
    return out


if __name__ == "__main__":
    import json
    r = check(sys.argv[1] if len(sys.argv) > 1 else "/repo")
    print(json.dumps(r, indent=1))
