//! Native validation of the libm contracts used by the Kani harnesses (supporting check, run by setup):
//! every contract predicate must accept what the real function returns — on the IEEE special-value lattice
//! and on pseudo-random arguments.  A rejection means a contract is unsound (an UNSAT verdict could be wrong).
mod contracts_gen;
use contracts_gen::*;

struct Lcg(u64);
impl Lcg {
    fn next(&mut self) -> u64 {
        self.0 = self.0.wrapping_add(0x9e3779b97f4a7c15);
        let mut z = self.0;
        z = (z ^ (z >> 30)).wrapping_mul(0xbf58476d1ce4e5b9);
        z = (z ^ (z >> 27)).wrapping_mul(0x94d049bb133111eb);
        z ^ (z >> 31)
    }
}

fn lattice64() -> Vec<f64> {
    let mut v = vec![
        0.0, -0.0, 1.0, -1.0, 2.0, 0.5, 3.0, -3.0, 10.0, 0.1, 0.75, 1.5, 709.0, 709.78, 709.79, 710.0, -708.0, -745.0,
        -745.2, -746.0, 1e-300, 1e300, 1e-320, 5e-324, f64::MIN_POSITIVE, f64::MAX, -f64::MAX, f64::INFINITY,
        f64::NEG_INFINITY, f64::NAN, f64::EPSILON, 1.0 + f64::EPSILON, 1.0 - f64::EPSILON / 2.0, 0.99999, 1.00001,
        36.7, 1e15, 1e16, 4503599627370496.0, 9007199254740992.0, 1024.0, 1023.0, -1074.0, 128.0, 127.0, 53.0, 24.0,
        1.5707963267948966, 3.141592653589793, 0.7853981633974483, 2.0f64.powi(-53), 2.0f64.powi(-24), 0.06, 0.25, 1e3,
    ];
    let n = v.len();
    for i in 0..n {
        let x = v[i];
        if x.is_finite() {
            v.push(f64::from_bits(x.to_bits().wrapping_add(1)));
            v.push(f64::from_bits(x.to_bits().wrapping_sub(1)));
            v.push(-x);
        }
    }
    v
}

fn main() {
    let mut bad = 0u64;
    let mut n = 0u64;
    let mut rng = Lcg(12345);
    let mut xs = lattice64();
    // random doubles of every magnitude, and random doubles in "ordinary" ranges
    for _ in 0..200_000 {
        xs.push(f64::from_bits(rng.next()));
    }
    for _ in 0..200_000 {
        let u = (rng.next() >> 11) as f64 / 9007199254740992.0;
        xs.push((u - 0.5) * 1600.0);
        xs.push(u);
        xs.push(1.0 + u);
        xs.push(u * 50.0);
    }
    macro_rules! chk {
        ($ok:expr, $what:expr, $($arg:expr),*) => {{
            n += 1;
            if !$ok {
                bad += 1;
                if bad <= 40 { eprintln!("CONTRACT REJECTS REAL VALUE: {} {:?}", $what, ($($arg),*)); }
            }
        }};
    }
    for &x in &xs {
        let r = libm::log(x);
        chk!(ln64_ok(x, r), "libm::log", x, r);
        chk!(ln64_ok(x, x.ln()), "f64::ln", x, x.ln());
        let r = libm::exp(x);
        chk!(exp64_ok(x, r), "libm::exp", x, r);
        chk!(exp64_ok(x, x.exp()), "f64::exp", x, x.exp());
        let r = libm::sqrt(x);
        chk!(sqrt64_ok(x, r), "libm::sqrt", x, r);
        chk!(sqrt64_ok(x, x.sqrt()), "f64::sqrt", x, x.sqrt());
        let r = libm::tan(x);
        chk!(tan64_ok(x, r), "libm::tan", x, r);
        let f = libm::floor(x);
        chk!(f.to_bits() == c_floor64(x).to_bits() || (f != f && x != x), "floor", x, f, c_floor64(x));
        chk!(libm::fabs(x).to_bits() == c_fabs64(x).to_bits(), "fabs", x);
        // f32 versions on the rounded argument
        let xf = x as f32;
        let r = libm::logf(xf);
        chk!(ln32_ok(xf, r), "libm::logf", xf, r);
        let r = libm::expf(xf);
        chk!(exp32_ok(xf, r), "libm::expf", xf, r);
        let r = libm::sqrtf(xf);
        chk!(sqrt32_ok(xf, r), "libm::sqrtf", xf, r);
        let r = libm::tanf(xf);
        chk!(tan32_ok(xf, r), "libm::tanf", xf, r);
        let f = libm::floorf(xf);
        chk!(f.to_bits() == c_floor32(xf).to_bits() || (f != f && xf != xf), "floorf", xf, f, c_floor32(xf));
        chk!(libm::fabsf(xf).to_bits() == c_fabs32(xf).to_bits(), "fabsf", xf);
    }
    // pow: lattice x lattice, plus random pairs
    let lat = lattice64();
    let mut pairs: Vec<(f64, f64)> = Vec::new();
    for &x in &lat {
        for &y in &lat {
            pairs.push((x, y));
        }
    }
    for _ in 0..300_000 {
        let u = (rng.next() >> 11) as f64 / 9007199254740992.0;
        let v = (rng.next() >> 11) as f64 / 9007199254740992.0;
        pairs.push((u, -1.0 / (0.06 + v * 20.0)));
        pairs.push((u * 40.0, (v - 0.5) * 40.0));
        pairs.push((f64::from_bits(rng.next()), (v - 0.5) * 8.0));
        pairs.push((1.0 + u, v * 2000.0 - 1000.0));
        pairs.push((2.0, v * 2200.0 - 1100.0));
    }
    for &(x, y) in &pairs {
        let r = libm::pow(x, y);
        chk!(pow64_ok(x, y, r), "libm::pow", x, y, r);
        chk!(!(x >= 2.0 && y >= 1024.0) || r == f64::INFINITY, "libm::pow overflow row", x, y, r);
        let r2 = x.powf(y);
        chk!(pow64_ok(x, y, r2), "f64::powf", x, y, r2);
        if y.abs() < 1e9 && y == (y as i32) as f64 {
            let r3 = x.powi(y as i32);
            chk!(pow64_ok(x, y, r3), "f64::powi", x, y, r3);
        }
        let (xf, yf) = (x as f32, y as f32);
        let r = libm::powf(xf, yf);
        chk!(pow32_ok(xf, yf, r), "libm::powf", xf, yf, r);
        chk!(!(xf >= 2.0 && yf >= 128.0) || r == f32::INFINITY, "libm::powf overflow row", xf, yf, r);
    }
    println!("contracts_check: {} evaluations, {} rejected", n, bad);
    if bad != 0 {
        std::process::exit(1);
    }
}
